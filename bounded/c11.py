"""C11 bounded stand-in / replay: folding (real kernel and streaming wrapper) vs direct binning by the documented formula."""
import os
import shutil
import tempfile

import numpy as np
from common import Report, main, unpack_spec, write_stream

from sigpyproc.core import kernels
from sigpyproc.readers import FilReader

C = 299792458.0


def direct(X, delays, md, tsamp, period, accel, total, nbins, nints, nsubs, t0=0):
    """cube of sums and counts for samples t0 .. (X is [t, c]); same formula as documented, evaluated in float64"""
    n, nchans = X.shape
    fold = np.zeros((nints, nsubs, nbins))
    cnt = np.zeros((nints, nsubs, nbins), dtype=np.int64)
    f1, f2 = total / nints, nchans / nsubs
    tobs = total * tsamp
    for t in range(n - md):
        tj = (t + t0) * tsamp
        phase = nbins * tj * (1 + accel * (tj - tobs) / (2 * C)) / period + 0.5
        pb = abs(int(phase)) % nbins
        si = int((t + t0) // f1)
        for c in range(nchans):
            sb = int(c // f2)
            fold[si, sb, pb] += X[t + delays[c], c]
            cnt[si, sb, pb] += 1
    return fold, cnt


def sweep_impl(rep, tier, seed):
    rng = np.random.default_rng(seed)
    tmp = tempfile.mkdtemp(prefix="pvc_c11_")
    try:
        tsamp = 1.0 / 1024
        for nchans, N in ((8, 240), (6, 200)):
            data = rng.integers(0, 100, N * nchans, dtype=np.uint8).tobytes()
            d = os.path.join(tmp, f"c{nchans}")
            os.makedirs(d, exist_ok=True)
            names = write_stream(d, nchans, 8, data, [], tsamp=tsamp, fch1=1500.0, foff=-20.0)
            fil = FilReader(names)
            X = unpack_spec(data, 8).reshape(N, nchans).astype(np.float64)
            for (m, nbins, nints, nbands) in ((16, 8, 2, 2), (10, 5, 3, 4), (7, 7, 1, 3)):
                period = m * tsamp
                for dm in (0.0, 40.0):
                    delays = np.asarray(fil.header.get_dmdelays(dm), dtype=np.int64)
                    md = int(delays.max())
                    nb = min(nbands, nchans)
                    if (N * nchans) // (nb * nints * nbins) < 10:
                        continue
                    wf, wc = direct(X, delays, md, tsamp, period, 0.0, N, nbins, nints, nb)
                    with np.errstate(all="ignore"):
                        want = wf / wc
                    ref = None
                    for gulp in (md + 3, 2 * md + 1, 17, 64, 1000):
                        inp = dict(nchans=nchans, N=N, period_samples=m, nbins=nbins, nints=nints, nbands=nbands, dm=dm, maxdelay=md, gulp=gulp)
                        rep.case(("fold", nchans, m, nbins, nints, nbands, dm, gulp), inp)
                        try:
                            cube = np.asarray(fil.fold(period, dm, accel=0, nbins=nbins, nints=nints, nbands=nbands, gulp=gulp, quiet=True).data,
                                              dtype=np.float64)
                        except Exception as exc:  # noqa: BLE001
                            rep.fail(f"fold raised {type(exc).__name__}", function="base.py::Filterbank.fold", input=inp, observed=str(exc)[:120])
                            continue
                        ok = cube.shape == want.shape and np.allclose(np.nan_to_num(cube, nan=-1.0), np.nan_to_num(want, nan=-1.0), rtol=1e-5, atol=1e-4)
                        rep.check(ok, "cube differs from the mean of the samples assigned by the phase model", function="base.py::Filterbank.fold", input=inp,
                                  observed=cube.ravel()[:8], required=want.ravel()[:8])
                        if ref is None:
                            ref = cube
                        else:
                            rep.check(np.array_equal(np.isnan(cube), np.isnan(ref)) and np.allclose(np.nan_to_num(cube), np.nan_to_num(ref), rtol=1e-6, atol=1e-5),
                                      "cube depends on the gulp", function="base.py::Filterbank.fold", input=inp)
            # TimeSeries.fold: one channel, no delays - same phase model, nbins != nints on purpose
            from sigpyproc.header import Header
            from sigpyproc.timeseries import TimeSeries
            for (n, m, nbins, nints, accel) in ((400, 16, 8, 3, 0.0), (330, 10, 5, 4, 0.0), (512, 25, 25, 2, 0.0), (400, 16, 4, 7, 50.0)):
                x = (rng.integers(0, 100, n) + 1).astype(np.float32)
                hd = Header(filename="x.tim", data_type="time series", nchans=1, foff=-1.0, fch1=1400.0, nbits=32, tsamp=tsamp, tstart=58000.0, nsamples=n)
                inp = dict(n=n, period_samples=m, nbins=nbins, nints=nints, accel=accel)
                rep.case(("tsfold", n, m, nbins, nints, accel), inp)
                try:
                    cube = np.asarray(TimeSeries(x.copy(), hd).fold(m * tsamp, accel=accel, nbins=nbins, nints=nints).data, dtype=np.float64)
                except Exception as exc:  # noqa: BLE001
                    rep.fail(f"TimeSeries.fold raised {type(exc).__name__}", function="timeseries.py::TimeSeries.fold", input=inp, observed=str(exc)[:120])
                    continue
                wf, wc = direct(x.astype(np.float64).reshape(n, 1), np.zeros(1, dtype=np.int64), 0, tsamp, m * tsamp, accel, n, nbins, nints, 1)
                with np.errstate(all="ignore"):
                    want = wf / wc
                ok = cube.shape == want.shape and np.allclose(np.nan_to_num(cube, nan=-1.0), np.nan_to_num(want, nan=-1.0), rtol=1e-5, atol=1e-4)
                rep.check(ok, "TimeSeries.fold: cube differs from the mean of the samples assigned by the phase model",
                          function="timeseries.py::TimeSeries.fold", input=inp, observed=[list(cube.shape), cube.ravel()[:6].tolist()],
                          required=[list(want.shape), want.ravel()[:6].tolist()])
            # kernel: hit counts and a strictly periodic train
            for m, nbins, nints in ((16, 16, 4), (12, 6, 3)):
                n = 20 * m
                x = np.zeros(n, dtype=np.float32)
                x[3::m] = 1.0
                fa = np.zeros(nbins * nints, np.float32)
                ca = np.zeros(nbins * nints, np.int32)
                kernels.fold(x, fa, ca, np.array([0], np.int32), 0, np.float32(tsamp), np.float32(m * tsamp), np.float32(0), n, n, 1, nbins, nints, 1, 0)
                rep.case(("train", m, nbins, nints))
                rep.check(int(ca.sum()) == n, "hit counts do not sum to the number of samples folded", function="kernels.py::fold",
                          input=dict(m=m, nbins=nbins, nints=nints), observed=int(ca.sum()), required=n)
                prof = fa.reshape(nints, nbins)
                rep.check(all(np.count_nonzero(prof[i]) == 1 for i in range(nints)) and len({int(np.argmax(prof[i])) for i in range(nints)}) == 1,
                          "a strictly periodic train does not occupy a single phase bin in every sub-integration", function="kernels.py::fold",
                          input=dict(m=m, nbins=nbins, nints=nints), observed=prof.tolist()[:2])
    finally:
        shutil.rmtree(tmp, ignore_errors=True)


def sweep(tier, seed):
    rep = Report(dict(files=2, configs=3, dms=[0, 40], gulps="maxdelay+3 .. 1000"))
    sweep_impl(rep, tier, seed)
    return rep


def replay(payload):
    rep = Report(dict(mode="replay"))
    sweep_impl(rep, "quick", int(payload.get("seed", 0) or 0))
    return rep


if __name__ == "__main__":
    main(sweep, replay)
