"""C20 bounded stand-in / replay: after every write of every streaming writer the bytes on disk are a complete header
followed by a prefix of the final data section; every truncation of the final file (>= header) opens with the library's
reader and yields exactly the first k complete samples."""
import os
import shutil
import tempfile

import numpy as np
from common import Report, main
from c06 import mk
from c07 import read_out

from sigpyproc.block import FilterbankBlock
from sigpyproc.io import fileio
from sigpyproc.readers import FilReader
from sigpyproc.timeseries import TimeSeries


class Tap:
    """Records the on-disk bytes of every FileWriter after each write()/cwrite() call."""

    def __init__(self):
        self.snaps = {}
        self.ow, self.oc = fileio.FileWriter.write, fileio.FileWriter.cwrite
        tap = self

        def write(self_, bo):
            r = tap.ow(self_, bo)
            tap.snap(self_, "write")
            return r

        def cwrite(self_, arr):
            r = tap.oc(self_, arr)
            tap.snap(self_, "cwrite")
            return r
        fileio.FileWriter.write, fileio.FileWriter.cwrite = write, cwrite

    def snap(self, w, kind):
        name = w.files[0]
        with open(name, "rb") as fh:  # what another process (or a post-crash reader) would see right now
            self.snaps.setdefault(name, []).append((kind, fh.read()))

    def close(self):
        fileio.FileWriter.write, fileio.FileWriter.cwrite = self.ow, self.oc


def hdrlen_of(raw):
    return raw.index(b"HEADER_END") + len(b"HEADER_END") if b"HEADER_END" in raw else None


def check_file(rep, what, fnname, inp, snaps, final, tier):
    hl = hdrlen_of(final)
    rep.check(hl is not None, f"{what}: final file has no complete header", function=fnname, input=inp)
    if hl is None:
        return
    kinds = [k for k, _ in snaps]
    rep.check(kinds[:1] == ["write"] and "write" not in kinds[1:], f"{what}: header must be written exactly once, first",
              function=fnname, input=inp, observed=kinds[:6])
    prev = b""
    for i, (kind, b) in enumerate(snaps):
        ok = b[:hl] == final[:hl] if len(b) >= hl else False
        ok = ok and final.startswith(b) and b.startswith(prev)
        rep.check(ok, f"{what}: bytes on disk after write #{i} ({kind}) are not header + prefix of the final data (append-only)",
                  function=fnname, input=inp, observed=dict(len=len(b), hdrlen=hl))
        prev = b
    rep.check(bool(snaps) and snaps[-1][1] == final, f"{what}: file incomplete when the call returned", function=fnname, input=inp)


def truncations(rep, what, fnname, inp, final, tmp, tier):
    hl = hdrlen_of(final)
    full = read_out_bytes(final)
    step = 1 if len(final) - hl <= 96 or tier == "thorough" else max(1, (len(final) - hl) // 40)
    for L in list(range(hl, len(final) + 1, step)) + [len(final)]:
        p = os.path.join(tmp, "trunc.fil")
        with open(p, "wb") as fh:
            fh.write(final[:L])
        rep.case((what, "trunc", L))
        try:
            fil = FilReader(p)
            k = fil.header.nsamples
            bps = full["nchans"] * full["nbits"] / 8
            want_k = int((L - hl) // bps)
            if k != want_k:
                rep.fail(f"{what}: truncated file reports {k} samples, holds {want_k} complete ones", function="sigproc.py::parse_header",
                         input=dict(inp, L=L))
                continue
            if k > 0:
                blk = np.asarray(fil.read_block(0, k).data, dtype=np.float64).T
                rep.check(np.array_equal(blk, full["X"][:k]), f"{what}: truncated file does not yield the first k samples",
                          function="readers.py::FilReader.read_block", input=dict(inp, L=L, k=k))
        except Exception as exc:  # noqa: BLE001
            rep.fail(f"{what}: truncated file (L={L}) does not open/read: {type(exc).__name__}", function="readers.py::FilReader",
                     input=dict(inp, L=L), observed=str(exc)[:160])


def read_out_bytes(raw):
    import tempfile as tf
    with tf.NamedTemporaryFile(suffix=".fil", delete=False) as fh:
        fh.write(raw)
        p = fh.name
    try:
        return read_out(p)
    finally:
        os.unlink(p)


def sweep_impl(rep, tier, seed):
    rng = np.random.default_rng(seed)
    tmp = tempfile.mkdtemp(prefix="pvc_c20_")
    try:
        for nbits in (8, 2, 32) if tier == "quick" else (1, 2, 4, 8, 32):
            names, X = mk(tmp, nbits, 8, 14, rng, None, "in")
            fil = FilReader(names)
            for gulp in (3, 50) if tier == "quick" else (1, 3, 5, 14, 50):
                kw = dict(gulp=gulp, quiet=True)
                o = os.path.join(tmp, "o.fil")
                mask = np.zeros(8, bool)
                mask[2] = True
                ops = [
                    ("extract_samps", lambda: fil.extract_samps(2, 9, o, gulp=gulp, quiet=True)),
                    ("apply_channel_mask", lambda: fil.apply_channel_mask(mask, 1, o, **kw)),
                    ("invert_freq", lambda: fil.invert_freq(o, **kw)),
                    # (ffactor such that one OUTPUT sample is a whole number of bytes: the writers' domain)
                    ("downsample", lambda: fil.downsample(2, 1 if nbits == 1 else 2, o, **kw)),
                    ("requantize", lambda: fil.requantize(nbits, o, **kw)),
                    ("remove_zerodm", lambda: fil.remove_zerodm(o, **kw)),
                    ("subband", lambda: fil.subband(0.0, 2, o, **kw)),
                    ("extract_bands", lambda: fil.extract_bands(0, 8, max(4, 8 // nbits), os.path.join(tmp, "ob"), **kw)),
                    ("extract_chans", lambda: fil.extract_chans([1, 5], os.path.join(tmp, "oc"), **kw)),
                    # more output files than one batch of open writers: a later batch must not touch earlier files
                    # (bands of whole bytes per sample: a band narrower than a byte is outside the writers' domain - pack refuses it)
                    ("extract_bands", lambda: fil.extract_bands(0, 8, max(2, 8 // nbits), os.path.join(tmp, "obb"), batch_size=1, **kw)),
                    ("extract_chans", lambda: fil.extract_chans([1, 5, 6], os.path.join(tmp, "ocb"), batch_size=2, **kw)),
                    # sub-range requests (start > 0): whatever the header needs (tstart) must be written up front, not patched in
                    ("downsample", lambda: fil.downsample(2, 1 if nbits == 1 else 2, o, start=3, nsamps=10, **kw)),
                    ("apply_channel_mask", lambda: fil.apply_channel_mask(mask, 1, o, start=3, nsamps=10, **kw)),
                    ("invert_freq", lambda: fil.invert_freq(o, start=2, nsamps=11, **kw)),
                    ("remove_zerodm", lambda: fil.remove_zerodm(o, start=3, nsamps=10, **kw)),
                    ("subband", lambda: fil.subband(0.0, 2, o, start=3, nsamps=10, **kw)),
                    ("extract_chans", lambda: fil.extract_chans([2, 4], os.path.join(tmp, "ocs"), start=3, nsamps=10, **kw)),
                    ("extract_bands", lambda: fil.extract_bands(0, 8, max(4, 8 // nbits), os.path.join(tmp, "obs"), start=3, nsamps=10, **kw)),
                ]
                for what, call in ops:
                    inp = dict(writer=what, nbits=nbits, gulp=gulp)
                    tap = Tap()
                    try:
                        call()
                    except Exception as exc:  # noqa: BLE001
                        rep.fail(f"{what} raised {type(exc).__name__}", function=f"base.py::Filterbank.{what}", input=inp, observed=str(exc)[:160])
                        continue
                    finally:
                        tap.close()
                    rep.check(len(tap.snaps) >= 1, f"{what}: no write observed", function=f"base.py::Filterbank.{what}", input=inp)
                    for fname, snaps in tap.snaps.items():
                        rep.case((what, nbits, gulp, os.path.basename(fname)), dict(inp, writes=len(snaps)))
                        final = open(fname, "rb").read()
                        check_file(rep, what, f"base.py::Filterbank.{what}", inp, snaps, final, tier)
                        if gulp == 3:
                            truncations(rep, what, f"base.py::Filterbank.{what}", inp, final, tmp, tier)
        # block / time-series writers
        from c04 import base_header
        tap = Tap()
        try:
            blk = FilterbankBlock(rng.normal(0, 1, (4, 6)).astype(np.float32), base_header(4, 32, 6))
            p1 = blk.to_file(os.path.join(tmp, "blk.fil"))
            tim = TimeSeries(rng.normal(0, 1, 9).astype(np.float32), base_header(1, 32, 9, data_type="time series"))
            p2 = tim.to_tim(os.path.join(tmp, "t.tim"))
        finally:
            tap.close()
        for what, p in (("block.to_file", p1), ("to_tim", p2)):
            rep.case((what,))
            final = open(p, "rb").read()
            check_file(rep, what, what, dict(writer=what), tap.snaps.get(p, []), final, tier)
            truncations(rep, what, what, dict(writer=what), final, tmp, tier)
    finally:
        shutil.rmtree(tmp, ignore_errors=True)


def sweep(tier, seed):
    rep = Report(dict(writers=11, crash_points="after every write()/cwrite()", truncation="every byte (small files)"))
    sweep_impl(rep, tier, seed)
    return rep


def replay(payload):
    rep = Report(dict(mode="replay"))
    sweep_impl(rep, "quick", int(payload.get("seed", 0) or 0))
    return rep


if __name__ == "__main__":
    main(sweep, replay)
