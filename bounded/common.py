"""Shared plumbing for bounded stand-ins / native replays (run under /venv/bin/python, PYTHONPATH=/repo)."""
import json
import sys
import traceback


_REPORTS = []


class Report:
    def __init__(self, bounds):
        _REPORTS.append(self)
        self.cases = 0
        self.distinct = set()
        self.failures = []
        self.samples = []
        self.bounds = bounds

    def case(self, key, sample=None):
        self.cases += 1
        self.distinct.add(key)
        if sample is not None and len(self.samples) < 4:
            self.samples.append(sample)

    def fail(self, what, function=None, input=None, observed=None, required=None):  # noqa: A002
        if len(self.failures) < 400:
            self.failures.append(dict(what=what, function=function, input=input, observed=_j(observed),
                                      required=_j(required)))

    def check(self, cond, what, **kw):
        if not cond:
            self.fail(what, **kw)
        return cond

    def guard(self, fn, what, **kw):
        """Run fn(); an unexpected exception is a failure of `what`."""
        try:
            return fn()
        except Exception as exc:  # noqa: BLE001
            self.fail(what, observed=f"{type(exc).__name__}: {exc}", **kw)
            return None

    def dump(self):
        print(json.dumps(dict(cases=self.cases, distinct=len(self.distinct), failures=self.failures,
                              samples=self.samples, bounds=self.bounds), default=str))


def _j(x):
    try:
        import numpy as np
        if isinstance(x, np.ndarray):
            return x.tolist() if x.size <= 64 else {"shape": list(x.shape), "head": x.ravel()[:32].tolist()}
        if isinstance(x, (np.integer,)):
            return int(x)
        if isinstance(x, (np.floating,)):
            return float(x)
    except Exception:  # noqa: BLE001
        pass
    return x


def main(sweep, replay):
    payload = json.loads(sys.stdin.read() or "{}")
    try:
        if payload.get("mode") == "replay":
            rep = replay(payload)
        else:
            rep = sweep(payload.get("tier", "quick"), int(payload.get("seed", 0) or 0))
        rep.dump()
    except Exception:  # noqa: BLE001
        # an exception escaping from the library under test is a finding of the sweep, not a crash of the driver
        tb = traceback.format_exc()
        if _REPORTS and "/verif/bounded/" in tb.splitlines()[-3 if len(tb.splitlines()) > 3 else 0:][0] and False:
            pass
        rep = _REPORTS[-1] if _REPORTS else Report(dict(aborted=True))
        frames = [ln for ln in tb.splitlines() if "/sigpyproc/" in ln]
        if frames:
            rep.fail("exception escaped from the library during the sweep", function=frames[-1].strip()[:120],
                     observed=tb[-1200:])
            rep.dump()
        elif getattr(rep, "failures", None):
            # the driver itself tripped over data of an unexpected shape AFTER it had already recorded failing
            # inputs: those failures are the result of the sweep; the trace is kept with them
            rep.bounds["driver_exception_after_failures"] = tb[-800:]
            rep.dump()
        else:
            traceback.print_exc()
            sys.exit(3)


# ---------------------------------------------------------------- independent SIGPROC writer (not the repo's encoder)
def _s(x):
    import struct
    return struct.pack("I", len(x)) + x.encode()


def sigproc_header(nchans, nbits, tstart=60000.0, tsamp=0.001, fch1=1500.0, foff=-1.0, **extra):
    import struct
    h = _s("HEADER_START")
    h += _s("telescope_id") + struct.pack("I", extra.get("telescope_id", 4))
    h += _s("machine_id") + struct.pack("I", extra.get("machine_id", 10))
    h += _s("data_type") + struct.pack("I", extra.get("data_type", 1))
    h += _s("source_name") + _s(extra.get("source_name", "src"))
    h += _s("barycentric") + struct.pack("I", 0)
    h += _s("pulsarcentric") + struct.pack("I", 0)
    h += _s("src_raj") + struct.pack("d", extra.get("src_raj", 123456.7))
    h += _s("src_dej") + struct.pack("d", extra.get("src_dej", -123456.7))
    h += _s("nbits") + struct.pack("I", nbits)
    h += _s("nifs") + struct.pack("I", 1)
    h += _s("nchans") + struct.pack("I", nchans)
    h += _s("fch1") + struct.pack("d", fch1)
    h += _s("foff") + struct.pack("d", foff)
    h += _s("tstart") + struct.pack("d", tstart)
    h += _s("tsamp") + struct.pack("d", tsamp)
    if "pad" in extra:
        h += _s("rawdatafile") + _s("x" * extra["pad"])
    h += _s("HEADER_END")
    return h


def write_stream(tmpdir, nchans, nbits, data_bytes, splits, tsamp=0.001, tstart=60000.0, pads=None, **kw):
    """Write `data_bytes` split at byte offsets `splits` into contiguous files; returns file names."""
    import os
    names = []
    cuts = [0] + list(splits) + [len(data_bytes)]
    bytes_per_samp = nchans * nbits / 8
    for i in range(len(cuts) - 1):
        chunk = data_bytes[cuts[i]:cuts[i + 1]]
        t0 = tstart + (cuts[i] / bytes_per_samp) * tsamp / 86400.0
        extra = dict(kw)
        if pads:
            extra["pad"] = pads[i]
        hdr = sigproc_header(nchans, nbits, tstart=t0, tsamp=tsamp, **extra)
        p = os.path.join(tmpdir, f"s{i}.fil")
        with open(p, "wb") as fh:
            fh.write(hdr + bytes(chunk))
        names.append(p)
    return names


def unpack_spec(raw, nbits):
    """Samples of a data section: independent reference (1-bit little, 2/4-bit big field order as the
    library's readers and writers both use; 8/16/32: little-endian elements)."""
    import numpy as np
    raw = np.frombuffer(bytes(raw), dtype=np.uint8)
    if nbits == 8:
        return raw.copy()
    if nbits == 16:
        return raw[: raw.size // 2 * 2].view("<u2").copy()
    if nbits == 32:
        return raw[: raw.size // 4 * 4].view("<f4").copy()
    f = 8 // nbits
    out = np.zeros(raw.size * f, np.uint8)
    for j in range(f):
        sh = j * nbits if nbits == 1 else (f - 1 - j) * nbits
        out[j::f] = (raw >> sh) & ((1 << nbits) - 1)
    return out
