"""Shared plumbing for bounded stand-ins / native replays (run under /venv/bin/python, PYTHONPATH=/repo)."""
import json
import sys
import traceback


class Report:
    def __init__(self, bounds):
        self.cases = 0
        self.distinct = set()
        self.failures = []
        self.samples = []
        self.bounds = bounds

    def case(self, key, sample=None):
        self.cases += 1
        self.distinct.add(key)
        if sample is not None and len(self.samples) < 4:
            self.samples.append(sample)

    def fail(self, what, function=None, input=None, observed=None, required=None):  # noqa: A002
        if len(self.failures) < 25:
            self.failures.append(dict(what=what, function=function, input=input, observed=_j(observed),
                                      required=_j(required)))

    def check(self, cond, what, **kw):
        if not cond:
            self.fail(what, **kw)
        return cond

    def guard(self, fn, what, **kw):
        """Run fn(); an unexpected exception is a failure of `what`."""
        try:
            return fn()
        except Exception as exc:  # noqa: BLE001
            self.fail(what, observed=f"{type(exc).__name__}: {exc}", **kw)
            return None

    def dump(self):
        print(json.dumps(dict(cases=self.cases, distinct=len(self.distinct), failures=self.failures,
                              samples=self.samples, bounds=self.bounds), default=str))


def _j(x):
    try:
        import numpy as np
        if isinstance(x, np.ndarray):
            return x.tolist() if x.size <= 64 else {"shape": list(x.shape), "head": x.ravel()[:32].tolist()}
        if isinstance(x, (np.integer,)):
            return int(x)
        if isinstance(x, (np.floating,)):
            return float(x)
    except Exception:  # noqa: BLE001
        pass
    return x


def main(sweep, replay):
    payload = json.loads(sys.stdin.read() or "{}")
    try:
        if payload.get("mode") == "replay":
            rep = replay(payload)
        else:
            rep = sweep(payload.get("tier", "quick"), int(payload.get("seed", 0) or 0))
        rep.dump()
    except Exception:  # noqa: BLE001
        traceback.print_exc()
        sys.exit(3)
