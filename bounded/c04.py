"""C04 bounded stand-in / replay: write with the library, read back with the matching reader (and an independent parser)."""
import os
import shutil
import tempfile

import numpy as np
from common import Report, main, unpack_spec
from c07 import read_out

from sigpyproc.block import FilterbankBlock
from sigpyproc.fourierseries import FourierSeries
from sigpyproc.header import Header
from sigpyproc.readers import FilReader
from sigpyproc.timeseries import TimeSeries


def base_header(nchans, nbits, nsamples, **kw):
    d = dict(filename="x.fil", data_type="filterbank", nchans=nchans, foff=-0.5, fch1=1400.0, nbits=nbits, tsamp=6.4e-5,
             tstart=58000.123456789, nsamples=nsamples, source="J0000+00", dm=12.5)
    d.update(kw)
    return Header(**d)


def sweep_impl(rep, tier, seed):
    rng = np.random.default_rng(seed)
    tmp = tempfile.mkdtemp(prefix="pvc_c04_")
    cwd = os.getcwd()
    os.chdir(tmp)
    try:
        # ---- prepared output file at every depth x in-memory dtype
        for nbits in (1, 2, 4, 8, 16, 32):
            for nchans, nsamps in ((8, 1), (8, 5), (16, 9)):
                hi = (1 << nbits) if nbits < 32 else 200
                vals = rng.integers(0, min(hi, 60000), nsamps * nchans)
                # incl. arrays of the file's width but another kind / byte order (int32, uint32 and >f4 into 32 bits, >u2 into 16)
                for dt in (np.uint8, np.uint16, np.int64, np.float32, np.float64, np.int32, np.uint32, np.dtype(">f4"), np.dtype(">u2")):
                    if vals.max() > np.iinfo(np.uint8).max and dt == np.uint8:
                        arr = (vals % 256).astype(dt)
                    else:
                        arr = vals.astype(dt)
                    want = arr.astype(np.float64)
                    inp = dict(nbits=nbits, nchans=nchans, nsamps=nsamps, dtype=np.dtype(dt).name)
                    rep.case(("cwrite", nbits, nchans, nsamps, np.dtype(dt).name), inp)
                    p = os.path.join(tmp, "w.fil")
                    hdr = base_header(nchans, 8, nsamps)
                    try:
                        with hdr.prep_outfile(p, nbits=nbits) as w:
                            w.cwrite(arr)
                    except (ValueError, TypeError):
                        continue  # refused: allowed by the property
                    except Exception as exc:  # noqa: BLE001
                        rep.fail(f"cwrite raised {type(exc).__name__}", function="fileio.py::FileWriter.cwrite", input=inp, observed=str(exc))
                        continue
                    out = read_out(p)
                    ok_width = out["nbytes"] * 8 == nsamps * nchans * nbits
                    rep.check(ok_width, "data section is not nsamps*nchans*nbits/8 bytes (written at another sample width)",
                              function="fileio.py::FileWriter.cwrite", input=inp, observed=out["nbytes"], required=nsamps * nchans * nbits // 8)
                    if ok_width:
                        rep.check(np.array_equal(out["X"].ravel(), want), "values representable at the depth do not read back",
                                  function="fileio.py::FileWriter.cwrite", input=inp, observed=out["X"].ravel()[:16], required=want[:16])
                        fil = FilReader(p)
                        rep.check(fil.header.nsamples == nsamps, "reader infers a different sample count",
                                  function="sigproc.py::parse_header", input=inp, observed=fil.header.nsamples, required=nsamps)
                        blk = fil.read_block(0, nsamps)
                        rep.check(np.array_equal(np.asarray(blk.data, dtype=np.float64).T.ravel(), want), "library reader returns other samples",
                                  function="readers.py::FilReader.read_block", input=inp)
                        rep.check(abs(fil.header.tsamp - hdr.tsamp) < 1e-15 and abs(fil.header.tstart - hdr.tstart) < 6e-11
                                  and abs(fil.header.dm - hdr.dm) < 1e-12, "timing metadata (tsamp, tstart, dm) changed",
                                  function="header.py::Header.prep_outfile", input=inp,
                                  observed=[fil.header.tsamp, fil.header.tstart, fil.header.dm])
        # ---- the depth requested through the header updates, and arrays that are not a whole number of bytes at packed depths
        for in_bits, req in ((32, 8), (8, 32), (8, 16), (8, 2)):
            nchans, nsamps = 8, 4
            arr = rng.integers(0, 1 << min(req, 7), nchans * nsamps).astype(np.uint8)
            inp = dict(header_nbits=in_bits, updates={"nbits": req}, nchans=nchans, nsamps=nsamps)
            rep.case(("updates-nbits", in_bits, req), inp)
            p = os.path.join(tmp, "u.fil")
            upd = {"nbits": req}
            try:
                with base_header(nchans, in_bits, nsamps).prep_outfile(p, updates=upd) as w:
                    w.cwrite(arr)
            except (ValueError, TypeError):
                continue
            out = read_out(p)
            rep.check(out["nbytes"] * 8 == nsamps * nchans * out["nbits"],
                      "prep_outfile(updates={'nbits': n}): the data are not written at the depth the header declares",
                      function="header.py::Header.prep_outfile", input=inp, observed=dict(declared=out["nbits"], data_bytes=out["nbytes"]))
            rep.check(upd == {"nbits": req}, "prep_outfile modified the caller's updates dictionary", function="header.py::Header.prep_outfile",
                      input=inp, observed=upd)
        for nbits in (1, 2, 4):
            f = 8 // nbits
            for extra in range(1, f):
                total = 0
                p = os.path.join(tmp, "pb.fil")
                inp = dict(nbits=nbits, block=f * 2 + extra, writes=3)
                rep.case(("partial-byte", nbits, extra), inp)
                try:
                    with base_header(1, nbits, 0).prep_outfile(p, nbits=nbits) as w:
                        for _ in range(3):
                            w.cwrite(rng.integers(0, 1 << nbits, f * 2 + extra).astype(np.uint8))
                            total += f * 2 + extra
                except ValueError:
                    continue  # refused: allowed by the property
                out = read_out(p)
                rep.check(out["nbytes"] * f == total, "cwrite silently dropped the samples of a trailing partial byte",
                          function="fileio.py::FileWriter.cwrite", input=inp, observed=out["nbytes"] * f, required=total)
        # ---- block.to_file
        for nchans, nsamps in ((4, 7), (8, 1)):
            data = rng.normal(0, 5, (nchans, nsamps)).astype(np.float32)
            blk = FilterbankBlock(data, base_header(nchans, 32, nsamps))
            p = os.path.join(tmp, "blk.fil")
            rep.case(("to_file", nchans, nsamps))
            back = rep.guard(lambda: (blk.to_file(p), FilReader(p).read_block(0, nsamps))[1], "block.to_file / read_block raised",
                             function="block.py::FilterbankBlock.to_file", input=dict(nchans=nchans, nsamps=nsamps))
            if back is None:
                continue
            rep.check(np.array_equal(back.data, data), "block.to_file / read_block round trip", function="block.py::FilterbankBlock.to_file",
                      input=dict(nchans=nchans, nsamps=nsamps))
        # ---- time series: .tim and .dat/.inf
        for n in (1, 2, 33):
            x = rng.normal(0, 3, n).astype(np.float32)
            tim = TimeSeries(x, base_header(1, 32, n, data_type="time series"))
            rep.case(("tim", n))
            back = rep.guard(lambda: TimeSeries.from_tim(tim.to_tim(os.path.join(tmp, "a.tim"))), ".tim round trip raised",
                             function="timeseries.py::TimeSeries.to_tim", input=dict(n=n))
            if back is None:
                continue
            rep.check(np.array_equal(back.data, x) and back.header.nsamples == n, ".tim round trip", function="timeseries.py::TimeSeries.to_tim",
                      input=dict(n=n), observed=back.data[:8], required=x[:8])
            rep.check(abs(back.header.tsamp - tim.header.tsamp) < 1e-15 and abs(back.header.tstart - tim.header.tstart) < 6e-11
                      and abs(back.header.dm - tim.header.dm) < 1e-12, ".tim timing metadata", function="timeseries.py::TimeSeries.to_tim",
                      input=dict(n=n))
            rep.case(("dat", n))
            back = rep.guard(lambda: TimeSeries.from_dat(tim.to_dat(os.path.join(tmp, "b"))), ".dat/.inf round trip raised",
                             function="timeseries.py::TimeSeries.to_dat", input=dict(n=n))
            if back is None:
                continue
            rep.check(back.data.shape == x.shape and np.array_equal(back.data, x), ".dat/.inf round trip (samples)",
                      function="timeseries.py::TimeSeries.to_dat", input=dict(n=n), observed=dict(n=int(back.data.size), head=back.data[:6]),
                      required=dict(n=n, head=x[:6]))
            rep.check(abs(back.header.tsamp - tim.header.tsamp) < 1e-12 and abs(back.header.tstart - tim.header.tstart) < 6e-11
                      and abs(back.header.dm - tim.header.dm) < 1e-9, ".dat/.inf timing metadata", function="header.py::Header.make_inf",
                      input=dict(n=n), observed=[back.header.tsamp, back.header.tstart, back.header.dm])
        # ---- Fourier series: .spec and .fft/.inf
        for n in (1, 2, 17):
            z = (rng.normal(0, 1, n) + 1j * rng.normal(0, 1, n)).astype(np.complex64)
            fs = FourierSeries(z, base_header(1, 32, 2 * (n - 1) if n > 1 else 1, data_type="time series"))
            rep.case(("spec", n))
            back = rep.guard(lambda: FourierSeries.from_spec(fs.to_spec(os.path.join(tmp, "a.spec"))), ".spec round trip raised",
                             function="fourierseries.py::FourierSeries.to_spec", input=dict(n=n))
            if back is None:
                continue
            rep.check(np.array_equal(back.data, z), ".spec round trip", function="fourierseries.py::FourierSeries.to_spec", input=dict(n=n),
                      observed=back.data[:4], required=z[:4])
            rep.case(("fft", n))
            back = rep.guard(lambda: FourierSeries.from_fft(fs.to_fft(os.path.join(tmp, "c"))), ".fft/.inf round trip raised",
                             function="fourierseries.py::FourierSeries.to_fft", input=dict(n=n))
            if back is None:
                continue
            rep.check(np.array_equal(back.data, z), ".fft/.inf round trip", function="fourierseries.py::FourierSeries.to_fft", input=dict(n=n))
            rep.check(abs(back.header.tsamp - fs.header.tsamp) < 1e-12 and abs(back.header.tstart - fs.header.tstart) < 6e-11,
                      ".fft/.inf timing metadata", function="header.py::Header.make_inf", input=dict(n=n),
                      observed=[back.header.tsamp, back.header.tstart])
    finally:
        os.chdir(cwd)
        shutil.rmtree(tmp, ignore_errors=True)


def sweep(tier, seed):
    rep = Report(dict(depths=[1, 2, 4, 8, 16, 32], dtypes=["uint8", "uint16", "int64", "float32", "float64", "int32", "uint32", ">f4", ">u2"],
                      shapes=[(8, 1), (8, 5), (16, 9)]))
    sweep_impl(rep, tier, seed)
    return rep


def replay(payload):
    rep = Report(dict(mode="replay"))
    sweep_impl(rep, "quick", int(payload.get("seed", 0) or 0))
    return rep


if __name__ == "__main__":
    main(sweep, replay)
