"""C10 bounded stand-in / replay: ChannelStats over every composition of short streams, every merge split."""
import itertools

import numpy as np
from common import Report, main

from sigpyproc.core.stats import ChannelStats


def compositions(n):
    for k in range(n):
        for cuts in itertools.combinations(range(1, n), k):
            b = [0, *cuts, n]
            yield [b[i + 1] - b[i] for i in range(len(b) - 1)]


def two_pass(x):
    x = x.astype(np.float64)
    mu = x.mean(axis=0)
    d = x - mu
    m2 = (d ** 2).mean(axis=0)
    with np.errstate(all="ignore"):
        skew = np.where(m2 > 0, (d ** 3).mean(axis=0) / np.where(m2 > 0, m2, 1) ** 1.5, 0.0)
        kurt = np.where(m2 > 0, (d ** 4).mean(axis=0) / np.where(m2 > 0, m2, 1) ** 2 - 3.0, -3.0)
    return dict(mean=mu, var=m2, skew=skew, kurtosis=kurt, maxima=x.max(axis=0), minima=x.min(axis=0))


def run(x, chunks, mode):
    n, nchans = x.shape
    st = ChannelStats(nchans, n)
    pos = 0
    for i, c in enumerate(chunks):
        st.push_data(np.ascontiguousarray(x[pos:pos + c]).ravel().astype(np.float32), pos, mode=mode)
        pos += c
    return st


def get(st, mode):
    keys = ["mean", "var", "maxima", "minima"] + (["skew", "kurtosis"] if mode == "full" else [])
    return {k: np.asarray(getattr(st, k), dtype=np.float64) for k in keys}


def check(rep, x, chunks, mode, tag, ref=None):
    x = x.astype(np.float32).astype(np.float64)  # the accumulator sees float32 samples: the oracle uses the same values
    inp = dict(kind=tag, n=int(x.shape[0]), nchans=int(x.shape[1]), chunks=chunks, mode=mode)
    rep.case((tag, x.shape, tuple(chunks), mode))
    try:
        st = run(x, chunks, mode)
    except Exception as exc:  # noqa: BLE001
        rep.fail(f"push_data raised {type(exc).__name__}", function="stats.py::ChannelStats.push_data", input=inp, observed=str(exc)[:100])
        return None
    got = get(st, mode)
    want = two_pass(x)
    cnt = np.asarray(st.moments["count"])
    rep.check(np.all(cnt == x.shape[0]), "count differs from the stream length", function="kernels.py::compute_online_moments", input=inp, observed=cnt[:4])
    for k, v in got.items():
        rep.check(np.all(np.isfinite(v)), f"{k} is NaN/inf for finite input", function="stats.py::ChannelStats", input=inp, observed=v[:4])
        scale = np.maximum(1.0, np.abs(want[k]))
        tol = 2e-3 * scale if k in ("skew", "kurtosis") else 2e-4 * scale * max(1.0, float(np.abs(x).max()) ** (2 if k == "var" else 1) / 1e2)
        if k in ("maxima", "minima"):
            ok = np.array_equal(v, want[k])
        elif k == "kurtosis" and np.any(want["var"] == 0):
            ok = np.all(np.isfinite(v))
        else:
            ok = np.all(np.abs(v - want[k]) <= tol)
        rep.check(ok, f"{k} differs from the two-pass float64 value", function="stats.py::ChannelStats", input=inp, observed=v[:4], required=want[k][:4])
    if ref is not None:
        for k in ("maxima", "minima"):
            rep.check(np.array_equal(got[k], ref[k]), f"{k} depends on the chunking", function="kernels.py::compute_online_moments", input=inp)
    return got


def sweep_impl(rep, tier, seed):
    rng = np.random.default_rng(seed)
    nmax = 7 if tier == "quick" else 9
    gens = {
        "constant": lambda n, c: np.full((n, c), 3.0),
        "onebit": lambda n, c: rng.integers(0, 2, (n, c)).astype(np.float64),
        "bytes": lambda n, c: rng.integers(0, 256, (n, c)).astype(np.float64),
        "wide": lambda n, c: rng.normal(0, 1, (n, c)) * 10.0 ** rng.integers(-2, 4, (1, c)),
        "mixedconst": lambda n, c: np.concatenate([np.full((n, 1), 7.0), rng.integers(0, 9, (n, c - 1)).astype(np.float64)], axis=1),
    }
    for tag, g in gens.items():
        for nchans in (1, 3):
            if tag == "mixedconst" and nchans == 1:
                continue
            for n in range(1, nmax + 1):
                x = g(n, nchans)
                for mode in ("basic", "full"):
                    ref = None
                    for chunks in compositions(n):
                        got = check(rep, x, chunks, mode, tag, ref)
                        if ref is None:
                            ref = got
                    # merge of two accumulators at every split point
                    for s in range(1, n):
                        rep.case((tag, "merge", n, nchans, s, mode))
                        x = x.astype(np.float32).astype(np.float64)
                        a, b = run(x[:s], [s], mode), run(x[s:], [n - s], mode)
                        # the second accumulator saw its own stream from index 0
                        m = a + b
                        gm, want = get(m, mode), two_pass(x)
                        cnt = np.asarray(m.moments["count"])
                        ok = np.all(cnt == n) and np.array_equal(gm["maxima"], want["maxima"]) and np.array_equal(gm["minima"], want["minima"])
                        scale = np.maximum(1.0, np.abs(want["var"]))
                        ok = ok and np.all(np.abs(gm["mean"] - want["mean"]) <= 2e-4 * np.maximum(1, np.abs(want["mean"])))
                        ok = ok and np.all(np.abs(gm["var"] - want["var"]) <= 2e-3 * scale)
                        rep.check(ok and all(np.all(np.isfinite(v)) for v in gm.values()), "merged accumulators differ from the whole stream",
                                  function="stats.py::ChannelStats.__add__", input=dict(kind=tag, n=n, nchans=nchans, split=s, mode=mode),
                                  observed={k: v[:3] for k, v in gm.items()}, required={k: want[k][:3] for k in gm})
    # long seeded streams
    for n in (1000, 4097):
        x = rng.normal(100, 15, (n, 4))
        for chunks in ([n], [1] * 5 + [n - 5], [n // 3, n // 3, n - 2 * (n // 3)], [7] * (n // 7) + ([n % 7] if n % 7 else [])):
            check(rep, x, chunks, "full", "long")


def sweep(tier, seed):
    rep = Report(dict(stream_lengths="1..7(9) all compositions", channels=[1, 3], kinds=["constant", "onebit", "bytes", "wide", "mixedconst"]))
    sweep_impl(rep, tier, seed)
    return rep


def replay(payload):
    rep = Report(dict(mode="replay"))
    sweep_impl(rep, "quick", int(payload.get("seed", 0) or 0))
    return rep


if __name__ == "__main__":
    main(sweep, replay)
