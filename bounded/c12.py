"""C12 bounded stand-in / replay: FFT-based operations against float64 direct evaluation (every length 1..N, including
lengths that are not FFT-friendly)."""
import numpy as np
from common import Report, main

from sigpyproc.core import kernels
from sigpyproc.header import Header
from sigpyproc.timeseries import TimeSeries


def hdr(n):
    return Header(filename="x.tim", data_type="time series", nchans=1, foff=-1.0, fch1=1400.0, nbits=32, tsamp=1e-3, tstart=58000.0,
                  nsamples=n)


def dft(x, nbins):
    n = len(x)
    k = np.arange(nbins)[:, None]
    t = np.arange(n)[None, :]
    return (x.astype(np.float64)[None, :] * np.exp(-2j * np.pi * k * t / n)).sum(axis=1)


def sweep_impl(rep, tier, seed):
    rng = np.random.default_rng(seed)
    nmax = 70 if tier == "quick" else 300
    for n in range(1, nmax + 1):
        x = rng.normal(0, 3, n).astype(np.float32)
        inp = dict(n=n, seed=seed)
        rep.case(("rfft", n))
        ts = TimeSeries(x.copy(), hdr(n))
        try:
            fs = ts.rfft()
            back = fs.ifft()
        except Exception as exc:  # noqa: BLE001
            rep.fail("rfft followed by ifft raised", function="fourierseries.py::FourierSeries.ifft", input=inp, observed=repr(exc))
            continue
        ng = int(kernels.nb_fft_good_size(n, True))
        pad = np.zeros(ng, dtype=np.float64)
        pad[:n] = x
        tol = 1e-5 * max(1.0, float(np.abs(x).max())) * np.sqrt(ng)
        rep.check(ng >= n and fs.header.nsamples == ng and len(fs.data) == ng // 2 + 1, "spectrum length / recorded transform length",
                  function="timeseries.py::TimeSeries.rfft", input=inp, observed=[len(fs.data), fs.header.nsamples], required=[ng // 2 + 1, ng])
        rep.check(len(back.data) == ng and back.header.nsamples == ng and bool(np.all(np.abs(np.asarray(back.data)[:ng] - pad[:len(back.data)]) <= tol)),
                  "rfft followed by ifft is not the series zero-padded to the transform length", function="fourierseries.py::FourierSeries.ifft",
                  input=inp, observed=len(back.data), required=ng)
        ref = dft(pad.astype(np.float32), ng // 2 + 1)
        if len(fs.data) != len(ref):
            continue  # already reported above (spectrum length); the remaining comparisons need the right length
        rep.check(bool(np.all(np.abs(fs.data - ref) <= 1e-4 * max(1.0, float(np.abs(ref).max())))), "spectrum differs from the discrete Fourier sum",
                  function="core/kernels.py::nb_rfft", input=inp)
        # Parseval over the full (Hermitian) spectrum
        full = np.abs(fs.data.astype(np.complex128)) ** 2
        w = np.full(len(full), 2.0)
        w[0] = 1.0
        if ng % 2 == 0:
            w[-1] = 1.0
        lhs, rhs = float((pad ** 2).sum()), float((w * full).sum() / ng)
        rep.check(abs(lhs - rhs) <= 1e-4 * max(1.0, lhs), "Parseval's identity violated", function="timeseries.py::TimeSeries.rfft", input=inp,
                  observed=[lhs, rhs])
        spec = fs.form_spec()
        rep.check(bool(np.all(np.abs(spec.data - np.abs(fs.data)) <= 1e-4 * max(1.0, float(np.abs(fs.data).max())))),
                  "amplitude spectrum is not the modulus of each Fourier bin", function="core/kernels.py::form_mspec", input=inp)
    # ---- convolution / correlation
    lens = list(range(1, 14)) + [17, 31, 64] if tier == "quick" else list(range(1, 40)) + [64, 97, 128]
    for n in lens:
        for m in lens:
            if tier == "quick" and n > 13 and m > 13:
                continue
            a = rng.normal(0, 2, n).astype(np.float32)
            b = rng.normal(0, 2, m).astype(np.float32)
            rep.case(("conv", n, m))
            inp = dict(n=n, m=m, seed=seed)
            tol = 2e-4 * max(1.0, float(np.abs(a).max() * np.abs(b).max()) * min(n, m))
            try:
                got = kernels.fftconvolve(a, b)
            except Exception as exc:  # noqa: BLE001  (numba-compiled: the trace has no library frame)
                rep.fail("fftconvolve raised for valid inputs", function="core/kernels.py::fftconvolve", input=inp, observed=repr(exc)[:160])
                continue
            ref = np.convolve(a.astype(np.float64), b.astype(np.float64), mode="full")
            rep.check(len(got) == n + m - 1 and bool(np.all(np.abs(got - ref) <= tol)), "fftconvolve is not the full linear convolution",
                      function="core/kernels.py::fftconvolve", input=inp, observed=len(got), required=n + m - 1)
            ts = TimeSeries(a.copy(), hdr(n))
            try:
                cor = ts.correlate(b.copy())
            except Exception as exc:  # noqa: BLE001
                rep.fail("correlate raised for valid inputs", function="timeseries.py::TimeSeries.correlate", input=inp, observed=repr(exc)[:160])
                continue
            refc = np.correlate(a.astype(np.float64), b.astype(np.float64), mode="full")  # lags -(m-1) .. n-1
            rep.check(len(cor.data) == n + m - 1 and cor.header.nsamples == n + m - 1 and bool(np.all(np.abs(cor.data - refc) <= tol)),
                      "correlate is not the full correlation at lags -(m-1)..n-1", function="timeseries.py::TimeSeries.correlate", input=inp,
                      observed=len(cor.data), required=n + m - 1)
            cor2 = ts.correlate(TimeSeries(b.copy(), hdr(m)))
            rep.check(bool(np.array_equal(cor2.data, cor.data)), "correlate(TimeSeries) differs from correlate(ndarray)",
                      function="timeseries.py::TimeSeries.correlate", input=inp)


def sweep(tier, seed):
    rep = Report(dict(lengths="1..70 (quick) / 1..300 (thorough)", conv_lengths="1..13,17,31,64 / 1..39,64,97,128"))
    sweep_impl(rep, tier, seed)
    return rep


def replay(payload):
    rep = Report(dict(mode="replay"))
    sweep_impl(rep, "quick", int(payload.get("seed", 0) or 0))
    return rep


if __name__ == "__main__":
    main(sweep, replay)
