"""C05 bounded stand-in / replay: SIGPROC header parse/encode round trips and in-place editing.

Headers are produced by an independent encoder (struct, not the repo's encode_key) with random key subsets, key orders
and values; files carry a few data bytes so that edits can be checked against them."""
import os
import shutil
import struct
import tempfile

import numpy as np
from common import Report, main

from sigpyproc.header import Header
from sigpyproc.io import sigproc

KEYS = {"telescope_id": "I", "machine_id": "I", "data_type": "I", "barycentric": "I", "pulsarcentric": "I", "ibeam": "I",
        "nbeams": "I", "nifs": "I", "nchans": "I", "nbits": "I", "refdm": "d", "foff": "d", "fch1": "d", "tsamp": "d",
        "tstart": "d", "src_raj": "d", "src_dej": "d", "az_start": "d", "za_start": "d", "source_name": "str",
        "rawdatafile": "str", "signed": "b"}


def s_(x):
    return struct.pack("I", len(x)) + x.encode()


def enc(items):
    h = s_("HEADER_START")
    for k, v in items:
        h += s_(k)
        h += s_(v) if KEYS[k] == "str" else struct.pack(KEYS[k], v)
    return h + s_("HEADER_END")


def sexa(deg_or_h, m, s, sign=1):
    return sign * (deg_or_h * 10000 + m * 100 + s)


def rand_header(rng, case):
    nbits = int(rng.choice([1, 2, 4, 8, 16, 32]))
    nchans = int(rng.choice([8, 16, 64]))
    decs = [sexa(0, 30, 15.25, -1), sexa(0, 0, 7.5, -1), sexa(45, 59, 59.99, -1), sexa(0, 12, 1.0, 1), sexa(89, 0, 0.5, 1),
            sexa(12, 34, 56.78, -1), 0.0, sexa(22, 0, 52.1234, 1), sexa(29, 0, 28.1187, -1)]
    ras = [sexa(0, 0, 1.5), sexa(23, 59, 59.9), sexa(12, 0, 0.0), sexa(5, 34, 31.97), sexa(5, 34, 31.94123), sexa(12, 0, 0.0049),
           sexa(17, 45, 40.03642)]
    vals = dict(telescope_id=int(rng.choice([0, 1, 4, 6, 7, 8, 64])), machine_id=int(rng.choice([0, 1, 2, 7, 10])), data_type=1,
                barycentric=0, pulsarcentric=0, ibeam=int(rng.integers(0, 14)), nbeams=int(rng.integers(1, 14)), nifs=1,
                nchans=nchans, nbits=nbits, refdm=float(rng.choice([0.0, 12.5, 300.25])), foff=float(rng.choice([-1.0, -0.5, 0.25])),
                fch1=float(rng.choice([1500.0, 800.25, 350.0])), tsamp=float(rng.choice([64e-6, 1e-3, 0.000256])),
                tstart=float(rng.choice([50000.0, 58849.123456789])), src_raj=float(ras[case % len(ras)]),
                src_dej=float(decs[case % len(decs)]), az_start=float(rng.choice([0.0, 123.5])), za_start=float(rng.choice([0.0, 45.25])),
                source_name=str(rng.choice(["J0835-4510", "B1937+21", "x", "Crab pulsar"])), rawdatafile="raw.dat", signed=1)
    frame = case % 3
    if frame == 1:
        vals["barycentric"] = 1
    if frame == 2:
        vals["pulsarcentric"] = 1
    required = ["nchans", "nbits", "tsamp", "tstart", "fch1", "foff", "data_type", "nifs"]
    optional = [k for k in KEYS if k not in required and k not in ("signed", "rawdatafile")]
    chosen = required + [k for k in optional if rng.random() < 0.8] + [k for k in ("signed", "rawdatafile") if rng.random() < 0.3]
    order = list(rng.permutation(chosen))
    return [(k, vals[k]) for k in order], vals


def arcsec(a, b):
    """angular distance in arcsec between two sexagesimal-packed values interpreted as deg:min:sec"""
    def todeg(x):
        sign = -1 if x < 0 else 1
        x = abs(x)
        d = int(x // 10000)
        m = int((x - d * 10000) // 100)
        s = x - d * 10000 - m * 100
        return sign * (d + m / 60 + s / 3600)
    return abs(todeg(a) - todeg(b)) * 3600


def sweep_impl(rep, tier, seed):
    rng = np.random.default_rng(seed)
    tmp = tempfile.mkdtemp(prefix="c05_")
    try:
        ncases = 60 if tier == "quick" else 400
        for case in range(ncases):
            items, vals = rand_header(rng, case)
            raw = enc(items)
            nbits, nchans = vals["nbits"], vals["nchans"]
            nsamp = 16
            data = rng.integers(0, 256, nsamp * nchans * nbits // 8, dtype=np.uint8).tobytes()
            path = os.path.join(tmp, f"h{case}.fil")
            with open(path, "wb") as fh:
                fh.write(raw + data)
            inp = dict(case=case, keys=[k for k, _ in items], values={k: v for k, v in items}, seed=seed)
            rep.case(("parse", case))
            # ---- (1) parse + re-encode reproduces the header bytes
            try:
                parsed = sigproc.parse_header(path)
            except Exception as exc:  # noqa: BLE001
                rep.fail("parse_header raised on a well-formed header", function="io/sigproc.py::parse_header", input=inp, observed=repr(exc))
                continue
            rep.check(parsed["hdrlen"] == len(raw) and parsed["nsamples"] == nsamp, "hdrlen / nsamples derived from the file",
                      function="io/sigproc.py::parse_header", input=inp, observed=[parsed["hdrlen"], parsed["nsamples"]], required=[len(raw), nsamp])
            re = sigproc.encode_header(parsed)
            rep.check(re == raw, "parse + encode does not reproduce the original header bytes", function="io/sigproc.py::encode_header",
                      input=inp, observed=len(re), required=len(raw))
            # ---- (2) Header -> file -> Header preserves the physical fields
            try:
                h1 = Header.from_sigproc(path)
            except Exception as exc:  # noqa: BLE001
                rep.fail("Header.from_sigproc raised", function="header.py::Header.from_sigproc", input=inp, observed=repr(exc))
                continue
            present = dict(items)
            frame = "barycentric" if present.get("barycentric") else ("pulsarcentric" if present.get("pulsarcentric") else "topocentric")
            rep.check(h1.frame == frame, "reference frame not preserved when parsing", function="header.py::Header.from_sigproc", input=inp,
                      observed=h1.frame, required=frame)
            if "src_dej" in present:
                got = float(h1.dec.replace(":", ""))
                rep.check(arcsec(got, present["src_dej"]) <= 0.01 and (got < 0) == (present["src_dej"] < 0 and abs(present["src_dej"]) > 1e-9),
                          "declination not preserved when parsing (0.01 arcsec, sign)", function="io/sigproc.py::parse_radec", input=inp,
                          observed=h1.dec, required=present["src_dej"])
            if "src_raj" in present:
                got = float(h1.ra.replace(":", ""))
                rep.check(arcsec(got, present["src_raj"]) * 15 <= 0.01, "right ascension not preserved when parsing",
                          function="io/sigproc.py::parse_radec", input=inp, observed=h1.ra, required=present["src_raj"])
            out = os.path.join(tmp, f"o{case}.fil")
            try:
                w = h1.prep_outfile(out)
                w.close()
                h2 = Header.from_sigproc(out)
            except Exception as exc:  # noqa: BLE001
                rep.fail("writing a Header and parsing it back raised", function="header.py::Header.prep_outfile", input=inp, observed=repr(exc))
                continue
            for f in ("nchans", "nbits", "tsamp", "tstart", "fch1", "foff", "source", "telescope", "backend", "ibeam", "nbeams", "dm", "frame",
                      "data_type", "nifs"):
                a, b = getattr(h1, f, None), getattr(h2, f, None)
                rep.check(a == b, f"field {f} not preserved by write + parse", function="header.py::Header.to_sigproc", input=inp, observed=[a, b])
            rep.check(abs(h1.coord.ra.arcsec - h2.coord.ra.arcsec) <= 0.01 and abs(h1.coord.dec.arcsec - h2.coord.dec.arcsec) <= 0.01,
                      "sky position not preserved by write + parse (0.01 arcsec)", function="header.py::Header.to_sigproc", input=inp,
                      observed=[h2.ra, h2.dec], required=[h1.ra, h1.dec])
            rep.check(abs(h1.azimuth.deg - h2.azimuth.deg) < 1e-9 and abs(h1.zenith.deg - h2.zenith.deg) < 1e-9,
                      "pointing angles not preserved by write + parse", function="header.py::Header.to_sigproc", input=inp)
            # the physical fields also survive relative to the original bytes
            tel = sigproc.telescope_ids.inv.get(present.get("telescope_id", 0), "Fake")
            bak = sigproc.machine_ids.inv.get(present.get("machine_id", 0), "FAKE")
            rep.check(h2.telescope == tel and h2.backend == bak, "telescope / backend identity not preserved", function="header.py::Header.to_sigproc",
                      input=inp, observed=[h2.telescope, h2.backend], required=[tel, bak])
            for k in ("ibeam", "nbeams"):
                if k in present:
                    rep.check(getattr(h2, k) == present[k], f"beam index {k} not preserved", function="header.py::Header.to_sigproc", input=inp,
                              observed=getattr(h2, k), required=present[k])
            if "refdm" in present:
                rep.check(h2.dm == present["refdm"], "reference DM not preserved", function="header.py::Header.to_sigproc", input=inp,
                          observed=h2.dm, required=present["refdm"])
            # ---- (3) editing a key in place
            if case % 3 == 0:
                edits = [("tstart", 51234.5), ("nchans", nchans), ("refdm", 77.0), ("source_name", "AB"), ("source_name", "a much longer name than before"),
                         ("fch1", 1234.0), ("ibeam", 3), ("notakey", 1)]
                for key, value in edits:
                    before = open(path, "rb").read()
                    had = key in present
                    rep.case(("edit", case, key, str(value)))
                    try:
                        sigproc.edit_header(path, key, value)
                        raised = None
                    except Exception as exc:  # noqa: BLE001
                        raised = exc
                    after = open(path, "rb").read()
                    einp = dict(inp, edit=[key, value])
                    if raised is not None:
                        rep.check(after == before, "edit_header raised but changed the file", function="io/sigproc.py::edit_header", input=einp,
                                  observed=repr(raised))
                        continue
                    rep.check(len(after) == len(before) and after[len(raw):] == data, "edit_header changed the header length or the data bytes",
                              function="io/sigproc.py::edit_header", input=einp)
                    try:
                        p2 = sigproc.parse_header(path)
                    except Exception as exc:  # noqa: BLE001
                        rep.fail("file unreadable after edit_header", function="io/sigproc.py::edit_header", input=einp, observed=repr(exc))
                        with open(path, "wb") as fh:
                            fh.write(before)
                        continue
                    p1 = sigproc.parse_header_bytes(before) if hasattr(sigproc, "parse_header_bytes") else None
                    want = dict(parsed)
                    if key == "source_name":
                        oldlen = len(parsed["source_name"])
                        want[key] = (value[:oldlen] + " " * (oldlen - len(value)))
                    else:
                        want[key] = value
                    same = all(p2.get(k) == want.get(k) for k in set(want) | set(p2))
                    rep.check(same and had, "edit_header did not rewrite exactly the requested key", function="io/sigproc.py::edit_header", input=einp,
                              observed={k: p2.get(k) for k in p2 if p2.get(k) != want.get(k)})
                    parsed = p2
    finally:
        shutil.rmtree(tmp, ignore_errors=True)


def sweep(tier, seed):
    rep = Report(dict(headers="60 (quick) / 400 (thorough) random key subsets and orders", edits=8))
    sweep_impl(rep, tier, seed)
    return rep


def replay(payload):
    rep = Report(dict(mode="replay"))
    sweep_impl(rep, "quick", int(payload.get("seed", 0) or 0))
    return rep


if __name__ == "__main__":
    main(sweep, replay)
