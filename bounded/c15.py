"""C15 bounded stand-in / replay: location/scale estimators and z-scores - affine equivariance, axis consistency,
broadcastable shapes, finiteness (zero scale falls back to unit scale)."""
import numpy as np
from common import Report, main

from sigpyproc.core import stats

SCALES = ["std", "iqr", "mad", "doublemad", "diffcov", "biweight", "qn", "sn", "gapper"]
LOCS = ["median", "mean"]
TIE_MSG = "doublemad: a sample equal to the median takes the other side's scale under a negative factor (tie-breaking at data == median)"


def close(a, b, rtol=2e-4, atol=1e-6):
    a, b = np.asarray(a, dtype=np.float64), np.asarray(b, dtype=np.float64)
    if a.shape != b.shape:
        return False
    return bool(np.allclose(a, b, rtol=rtol, atol=atol * max(1.0, float(np.abs(b).max()) if b.size else 1.0), equal_nan=True))


def sweep_impl(rep, tier, seed):
    rng = np.random.default_rng(seed)
    sizes = [7, 16, 33] if tier == "quick" else [5, 7, 16, 33, 64, 101]
    affs = [(2.0, 3.0), (-1.5, 0.0), (0.25, -10.0), (-1.0, 7.0)]
    for n in sizes:
        x = rng.normal(3.0, 2.0, n).astype(np.float64)
        x[n // 2] += 15.0  # an outlier
        for m in SCALES:
            inp = dict(n=n, method=m, seed=seed)
            rep.case(("scale-equiv", n, m))
            try:
                s0 = np.asarray(stats.estimate_scale(x, m), dtype=np.float64)
            except Exception as exc:  # noqa: BLE001
                rep.fail("estimate_scale raised", function="core/stats.py::estimate_scale", input=inp, observed=repr(exc)[:160])
                continue
            for a, b in affs:
                s1 = np.asarray(stats.estimate_scale(a * x + b, m), dtype=np.float64)
                want = abs(a) * (s0[::-1] if (m == "doublemad" and a < 0 and False) else s0)
                if m == "doublemad":
                    # per-sample scale: left/right roles swap under a negative factor, sample by sample the value is |a| * scale.
                    # Samples equal to the median are judged separately (tie-breaking, see known_findings.json)
                    tie = x == np.median(x)
                    rep.check(s1.shape == s0.shape and close(s1[~tie], abs(a) * s0[~tie]), "scale of a*x+b is not |a| * scale of x",
                              function="core/stats.py::_scale_doublemad", input=dict(inp, a=a, b=b), observed=s1[:4].tolist(),
                              required=(abs(a) * s0)[:4].tolist())
                    if s1.shape == s0.shape and tie.any():
                        rep.check(close(s1[tie], abs(a) * s0[tie]), TIE_MSG, function="core/stats.py::_scale_doublemad",
                                  input=dict(inp, a=a, b=b, tie_index=int(np.argmax(tie))), observed=s1[tie].tolist(), required=(abs(a) * s0[tie]).tolist())
                else:
                    rep.check(close(s1, want), "scale of a*x+b is not |a| * scale of x", function=f"core/stats.py::estimate_scale[{m}]",
                              input=dict(inp, a=a, b=b), observed=float(s1), required=float(want))
            for lm in LOCS:
                rep.case(("z-equiv", n, m, lm))
                z0 = stats.estimate_zscore(x.astype(np.float32), lm, m).data
                rep.check(z0.shape == x.shape and bool(np.all(np.isfinite(z0))), "z-scores not finite / wrong shape", function="core/stats.py::estimate_zscore",
                          input=dict(inp, loc=lm))
                for a, b in affs:
                    z1 = stats.estimate_zscore((a * x + b).astype(np.float32), lm, m).data
                    tie = (x == np.median(x)) if m == "doublemad" else np.zeros(n, dtype=bool)
                    rep.check(close(z1[~tie], (np.sign(a) * z0)[~tie], rtol=2e-3, atol=2e-4), "z-scores of a*x+b are not sign(a) * z-scores of x",
                              function="core/stats.py::estimate_zscore", input=dict(inp, loc=lm, a=a, b=b), observed=z1[:4].tolist(),
                              required=(np.sign(a) * z0)[:4].tolist())
                    if tie.any():
                        rep.check(close(z1[tie], (np.sign(a) * z0)[tie], rtol=2e-3, atol=2e-4), TIE_MSG, function="core/stats.py::_scale_doublemad",
                                  input=dict(inp, loc=lm, a=a, b=b, tie_index=int(np.argmax(tie))), observed=z1[tie].tolist(),
                                  required=(np.sign(a) * z0)[tie].tolist())
    # ---- axis consistency and shapes
    shapes = [(4, 9), (3, 5, 8)] if tier == "quick" else [(4, 9), (6, 11), (3, 5, 8), (2, 3, 4, 7)]
    for shp in shapes:
        X = rng.normal(0.0, 1.0, shp) * rng.uniform(0.5, 3.0, shp[-1])
        nd = len(shp)
        axes = [None] + list(range(nd)) + ([(0, nd - 1)] if nd > 2 else [])
        for m in SCALES + ["loc:median", "loc:mean"]:
            for ax in axes:
                for keep in (False, True):
                    inp = dict(shape=list(shp), method=m, axis=ax if not isinstance(ax, tuple) else list(ax), keepdims=keep, seed=seed)
                    rep.case(("axis", shp, m, ax, keep))
                    is_loc = m.startswith("loc:")

                    def one(v, _m=m, _is_loc=is_loc):
                        return stats.estimate_loc(v, _m[4:]) if _is_loc else stats.estimate_scale(v, _m)
                    try:
                        got = np.asarray(stats.estimate_loc(X, m[4:], axis=ax, keepdims=keep) if is_loc else stats.estimate_scale(X, m, axis=ax, keepdims=keep),
                                         dtype=np.float64)
                    except Exception as exc:  # noqa: BLE001
                        rep.fail("estimator raised along an axis", function=f"core/stats.py::estimate_{'loc' if is_loc else 'scale'}[{m}]", input=inp,
                                 observed=repr(exc)[:200])
                        continue
                    if m == "doublemad":
                        # per-sample result: same shape as the input, lane by lane
                        if ax is None:
                            ref = np.asarray(one(X.ravel())).reshape(X.shape)
                        else:
                            axt = ax if isinstance(ax, tuple) else (ax,)
                            rest = [i for i in range(nd) if i not in axt]
                            Xm = np.moveaxis(X, rest, range(len(rest)))
                            flat = Xm.reshape(int(np.prod([shp[i] for i in rest])) if rest else 1, -1)
                            refm = np.stack([np.asarray(one(row)) for row in flat]).reshape(Xm.shape)
                            ref = np.moveaxis(refm, range(len(rest)), rest)
                        rep.check(got.shape == X.shape and close(got, ref), "doublemad along an axis differs from the 1-D estimator applied per lane",
                                  function="core/stats.py::_scale_doublemad", input=inp, observed=list(got.shape), required=list(ref.shape))
                        continue
                    if ax is None:
                        ref = np.asarray(one(X.ravel()), dtype=np.float64)
                        ref_shape = tuple([1] * nd) if keep else ()
                    else:
                        axt = ax if isinstance(ax, tuple) else (ax,)
                        rest = [i for i in range(nd) if i not in axt]
                        Xm = np.moveaxis(X, rest, range(len(rest)))
                        flat = Xm.reshape(int(np.prod([shp[i] for i in rest])), -1)
                        ref = np.array([float(one(row)) for row in flat]).reshape([shp[i] for i in rest])
                        ref_shape = tuple(1 if i in axt else shp[i] for i in range(nd)) if keep else tuple(shp[i] for i in rest)
                    ok_shape = tuple(got.shape) == tuple(ref_shape)
                    rep.check(ok_shape, "result shape does not broadcast against the input as documented", function=f"core/stats.py::estimate_{'loc' if is_loc else 'scale'}[{m}]",
                              input=inp, observed=list(got.shape), required=list(ref_shape))
                    if ok_shape:
                        rep.check(close(got.reshape(ref.shape), ref), "estimator along an axis differs from the 1-D estimator applied to each lane / the flattened data",
                                  function=f"core/stats.py::estimate_{'loc' if is_loc else 'scale'}[{m}]", input=inp)
    # ---- finiteness: constant data, constant lanes, tiny arrays
    for m in SCALES + ["norm"]:
        for lm in LOCS + ["norm"]:
            for arr in (np.full(12, 4.0, np.float32), np.array([1.0], np.float32), np.array([2.0, 2.0], np.float32),
                        np.concatenate([np.zeros(20), [1.0]]).astype(np.float32)):
                rep.case(("finite", m, lm, arr.size))
                inp = dict(method=m, loc=lm, data=arr.tolist()[:6], n=int(arr.size))
                try:
                    with np.errstate(all="ignore"):
                        z = stats.estimate_zscore(arr, lm, m)
                    rep.check(bool(np.all(np.isfinite(z.data))) and z.data.shape == arr.shape, "z-scores of finite data are not finite",
                              function="core/stats.py::estimate_zscore", input=inp, observed=np.asarray(z.data).tolist()[:6])
                except Exception as exc:  # noqa: BLE001
                    rep.fail("estimate_zscore raised on finite data", function="core/stats.py::estimate_zscore", input=inp, observed=repr(exc)[:200])
            Y = np.ones((3, 8), dtype=np.float32)
            Y[1] = np.arange(8)
            for ax in (0, 1):
                rep.case(("finite2d", m, lm, ax))
                try:
                    with np.errstate(all="ignore"):
                        z = stats.estimate_zscore(Y, lm, m, axis=ax)
                    rep.check(bool(np.all(np.isfinite(z.data))) and z.data.shape == Y.shape, "z-scores along an axis with constant lanes are not finite",
                              function="core/stats.py::estimate_zscore", input=dict(method=m, loc=lm, axis=ax))
                except Exception as exc:  # noqa: BLE001
                    rep.fail("estimate_zscore raised along an axis", function="core/stats.py::estimate_zscore", input=dict(method=m, loc=lm, axis=ax), observed=repr(exc)[:200])


def sweep(tier, seed):
    rep = Report(dict(estimators=SCALES, locs=LOCS, sizes="7..33 / 5..101", shapes="2-D..4-D", affine=4))
    sweep_impl(rep, tier, seed)
    return rep


def replay(payload):
    rep = Report(dict(mode="replay"))
    sweep_impl(rep, "quick", int(payload.get("seed", 0) or 0))
    return rep


if __name__ == "__main__":
    main(sweep, replay)
