"""C17 bounded stand-in / replay: re-tuning a folded cube depends only on the final (dm, period), not on the history."""
import itertools

import numpy as np
from common import Report, main

from sigpyproc.foldedcube import FoldedData
from sigpyproc.header import Header


def mk(rng, nints, nbands, nbins, period, dm):
    hdr = Header(filename="x.fil", data_type="filterbank", nchans=64, foff=-1.0, fch1=1400.0, nbits=8, tsamp=1e-3, tstart=58000.0,
                 nsamples=20000)
    data = rng.integers(0, 1000, (nints, nbands, nbins)).astype(np.float32)
    return data, hdr


def apply(data, hdr, period, dm, ops):
    cube = FoldedData(data.copy(), hdr, period, dm)
    for kind, v in ops:
        if kind == "dm":
            cube.update_dm(v)
        else:
            cube.update_period(v)
    return cube


def sweep_impl(rep, tier, seed):
    rng = np.random.default_rng(seed)
    period0, dm0 = 0.25, 30.0
    dms = [dm0, 10.0, 55.5]
    pers = [period0, 0.2501, 0.2497]
    alphabet = [("dm", d) for d in dms] + [("p", p) for p in pers]
    depth = 3 if tier == "quick" else 4
    for (nints, nbands, nbins) in ((3, 4, 16), (1, 2, 8), (2, 1, 8)):  # incl. a single sub-band (TimeSeries.fold)
        data, hdr = mk(rng, nints, nbands, nbins, period0, dm0)
        final = {}
        for L in range(0, depth + 1):
            for ops in itertools.product(alphabet, repeat=L):
                cube = apply(data, hdr, period0, dm0, ops)
                fdm = next((v for k, v in reversed(ops) if k == "dm"), dm0)
                fp = next((v for k, v in reversed(ops) if k == "p"), period0)
                inp = dict(shape=[nints, nbands, nbins], ops=[list(o) for o in ops], final_dm=fdm, final_period=fp)
                rep.case((nints, nbands, nbins, ops))
                arr = np.asarray(cube.data)
                rep.check(cube.dm == fdm and cube.period == fp, "reported dm/period do not describe the last update", function="foldedcube.py::FoldedData",
                          input=inp, observed=[cube.dm, cube.period])
                # rotations only: every profile keeps its multiset of values
                ok = all(np.array_equal(np.sort(arr[i, j]), np.sort(data[i, j])) for i in range(nints) for j in range(nbands))
                rep.check(ok, "an update changed the values of a profile (not a rotation)", function="foldedcube.py::FoldedData.update_dm", input=inp)
                key = (fdm, fp)
                if key not in final:
                    final[key] = (arr.copy(), ops)
                else:
                    rep.check(np.array_equal(arr, final[key][0]), "cube depends on the update history, not only on the final dm/period",
                              function="foldedcube.py::FoldedData._get_dmdelays", input=dict(inp, other_history=[list(o) for o in final[key][1]]))
                if fdm == dm0 and fp == period0:
                    rep.check(np.array_equal(arr, data), "returning to the folding dm/period does not restore the original cube",
                              function="foldedcube.py::FoldedData._get_dmdelays", input=inp)
                if ops:
                    again = apply(data, hdr, period0, dm0, list(ops) + [ops[-1]])
                    rep.check(np.array_equal(np.asarray(again.data), arr), "repeating an update changes the cube", function="foldedcube.py::FoldedData",
                              input=inp)
    # random longer histories
    data, hdr = mk(rng, 4, 3, 32, period0, dm0)
    for _ in range(40 if tier == "quick" else 400):
        ops = [alphabet[int(rng.integers(0, len(alphabet)))] for _ in range(int(rng.integers(5, 12)))]
        fdm = next((v for k, v in reversed(ops) if k == "dm"), dm0)
        fp = next((v for k, v in reversed(ops) if k == "p"), period0)
        a = np.asarray(apply(data, hdr, period0, dm0, ops).data)
        b = np.asarray(apply(data, hdr, period0, dm0, [("dm", fdm), ("p", fp)]).data)
        rep.case(("rand", tuple(ops)))
        rep.check(np.array_equal(a, b), "long history differs from the direct update to the final values", function="foldedcube.py::FoldedData",
                  input=dict(ops=[list(o) for o in ops]))


def sweep(tier, seed):
    rep = Report(dict(alphabet="3 dms x 3 periods", depth=3 if tier == "quick" else 4, shapes=[(3, 4, 16), (1, 2, 8), (2, 1, 8)]))
    sweep_impl(rep, tier, seed)
    return rep


def replay(payload):
    rep = Report(dict(mode="replay"))
    sweep_impl(rep, "quick", int(payload.get("seed", 0) or 0))
    return rep


if __name__ == "__main__":
    main(sweep, replay)
