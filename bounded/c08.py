"""C08 bounded stand-in / replay: headers of derived products describe their data (real functions, real files)."""
import os
import shutil
import tempfile

import numpy as np
from common import Report, main, unpack_spec, write_stream
from c07 import read_out

from sigpyproc.readers import FilReader

US5 = 5.8e-11  # 5 microseconds in days


def close(a, b, rel=1e-12):
    return abs(a - b) <= rel * max(1.0, abs(a), abs(b))


def sweep_impl(rep, tier, seed):
    rng = np.random.default_rng(seed)
    tmp = tempfile.mkdtemp(prefix="pvc_c08_")
    try:
        N, nchans = 40, 16
        for (fch1, foff) in ((1500.0, -0.1), (1400.0, -1.0 / 3.0), (1200.0, -1.0), (300.0, 0.1), (1500.0, -0.390625)):
            data = rng.integers(0, 200, N * nchans, dtype=np.uint8).tobytes()
            d = os.path.join(tmp, f"f_{abs(foff):.4f}_{fch1:.0f}")
            os.makedirs(d, exist_ok=True)
            names = write_stream(d, nchans, 8, data, [], tsamp=6.4e-5, tstart=59000.25, fch1=fch1, foff=foff)
            fil = FilReader(names)
            hd = fil.header
            X = unpack_spec(data, 8).reshape(N, nchans).astype(np.float64)
            freqs = fch1 + foff * np.arange(nchans)
            # ---- read_block by first-channel frequency
            if foff < 0:
                for k in range(nchans):
                    for nc in (1, 3, nchans - k, nchans - k + 1, nchans):
                        f = float(freqs[k])
                        if k + nc > nchans:
                            # a channel range that leaves the band: either refused, or the header describes what is returned
                            rep.case(("read_block_fch1_overrun", foff, k, nc))
                            try:
                                blk = fil.read_block(3, 7, fch1=f, nchans=nc)
                            except ValueError:
                                continue
                            rep.check(blk.header.nchans == blk.data.shape[0],
                                      "read_block(fch1, nchans) past the last channel: header nchans differs from the rows returned",
                                      function="readers.py::FilReader.read_block",
                                      input=dict(fch1=fch1, foff=foff, k=k, request_fch1=f, nchans=nc),
                                      observed=dict(header_nchans=blk.header.nchans, rows=int(blk.data.shape[0])))
                            continue
                        inp = dict(fch1=fch1, foff=foff, k=k, request_fch1=f, nchans=nc)
                        rep.case(("read_block_fch1", foff, k, nc))
                        try:
                            blk = fil.read_block(3, 7, fch1=f, nchans=nc)
                        except Exception as exc:  # noqa: BLE001
                            rep.fail(f"read_block(fch1=label of channel {k}) raised {type(exc).__name__}", function="readers.py::FilReader.read_block",
                                     input=inp, observed=str(exc)[:120])
                            continue
                        ok = np.array_equal(np.asarray(blk.data, dtype=np.float64), X[3:10, k:k + nc].T)
                        rep.check(ok, "read_block(fch1=f) does not return the channels whose labels start at f",
                                  function="readers.py::FilReader.read_block", input=inp)
                        h = blk.header
                        rep.check(h.nchans == nc and h.nsamples == 7 and close(h.fch1, f) and close(h.foff, foff) and
                                  abs(h.tstart - (hd.tstart + 3 * hd.tsamp / 86400)) < US5,
                                  "read_block header (nchans, nsamples, fch1, foff, tstart)", function="readers.py::FilReader.read_block",
                                  input=inp, observed=dict(nchans=h.nchans, nsamples=h.nsamples, fch1=h.fch1, tstart=h.tstart))
            # ---- streaming reductions
            for (start, nsamps) in ((0, None), (5, 20), (11, None)):
                n = N - start if nsamps is None else nsamps
                t0 = hd.tstart + start * hd.tsamp / 86400
                kw = dict(gulp=7, start=start, nsamps=nsamps, quiet=True)
                for name, call, nexp in (("collapse", lambda: fil.collapse(**kw), n), ("read_chan", lambda: fil.read_chan(2, **kw), n)):
                    rep.case((name, foff, start, nsamps))
                    try:
                        ts = call()
                    except Exception as exc:  # noqa: BLE001
                        rep.fail(f"{name} raised {type(exc).__name__}", function=f"base.py::Filterbank.{name}", input=dict(start=start, nsamps=nsamps), observed=str(exc)[:100])
                        continue
                    h = ts.header
                    rep.check(h.nsamples == ts.data.size == nexp and h.nchans == 1 and close(h.tsamp, hd.tsamp) and abs(h.tstart - t0) < US5,
                              f"{name} header (nsamples, nchans, tsamp, tstart)", function=f"base.py::Filterbank.{name}",
                              input=dict(start=start, nsamps=nsamps), observed=dict(nsamples=h.nsamples, size=int(ts.data.size), tstart=h.tstart), required=dict(nsamples=nexp, tstart=t0))
                if foff < 0:
                    dm = 20.0
                    md = int(hd.get_dmdelays(dm).max())
                    if md < n:
                        rep.case(("dedisperse", foff, start, nsamps))
                        ts = fil.dedisperse(dm, **kw)
                        h = ts.header
                        rep.check(h.nsamples == ts.data.size == n - md and close(h.dm, dm) and abs(h.tstart - t0) < US5 and h.nchans == 1,
                                  "dedisperse header (nsamples, dm, tstart)", function="base.py::Filterbank.dedisperse",
                                  input=dict(start=start, nsamps=nsamps, dm=dm), observed=dict(nsamples=h.nsamples, dm=h.dm, tstart=h.tstart))
                # ---- writers: headers as stored in the files
                o = os.path.join(tmp, "o.fil")
                checks = [
                    ("invert_freq", lambda: fil.invert_freq(o, **kw), dict(fch1=fch1 + (nchans - 1) * foff, foff=-foff, tstart=t0, tsamp=hd.tsamp), nchans, 8),
                    ("apply_channel_mask", lambda: fil.apply_channel_mask(np.zeros(nchans, bool), 0, o, **kw), dict(fch1=fch1, foff=foff, tstart=t0, tsamp=hd.tsamp), nchans, 8),
                    ("downsample", lambda: fil.downsample(2, 4, o, **kw), dict(foff=foff * 4, tstart=t0, tsamp=hd.tsamp * 2), nchans // 4, 8),
                    ("extract_samps", lambda: fil.extract_samps(start, n, o, gulp=7, quiet=True), dict(fch1=fch1, foff=foff, tstart=t0, tsamp=hd.tsamp), nchans, 8),
                    ("remove_zerodm", lambda: fil.remove_zerodm(o, **kw), dict(fch1=fch1, foff=foff, tstart=t0, tsamp=hd.tsamp), nchans, 8),
                ]
                if foff < 0:
                    nsub = 4
                    sf = nchans // nsub
                    checks.append(("subband", lambda: fil.subband(15.0, nsub, o, **kw),
                                   dict(foff=foff * sf, fch1=float(np.mean(freqs[:sf])), tstart=t0, tsamp=hd.tsamp, refdm=15.0), nsub, 32))
                for name, call, want, nch, nb in checks:
                    rep.case((name, foff, start, nsamps))
                    try:
                        call()
                        out = read_out(o)
                    except Exception as exc:  # noqa: BLE001
                        rep.fail(f"{name} raised {type(exc).__name__}", function=f"base.py::Filterbank.{name}", input=dict(start=start, nsamps=nsamps), observed=str(exc)[:100])
                        continue
                    bad = [k for k, v in want.items() if (abs(out[k] - v) > US5 if k == "tstart" else not close(out[k], v, 1e-10))]
                    rep.check(not bad and out["nchans"] == nch and out["nbits"] == nb and out["whole"],
                              f"{name}: output header fields {bad or ['nchans/nbits']}", function=f"base.py::Filterbank.{name}",
                              input=dict(fch1=fch1, foff=foff, start=start, nsamps=nsamps), observed={k: out[k] for k in want}, required=want)
                # band extraction labels
                rep.case(("extract_bands", foff, start, nsamps))
                names_b = fil.extract_bands(4, 8, 4, os.path.join(tmp, "ob"), **kw)
                # more sub-bands than one batch of open files: labels must not depend on the batching
                names_c = fil.extract_bands(2, 12, 2, os.path.join(tmp, "oc"), batch_size=2, **kw)
                for i, nm in enumerate(names_c):
                    out = read_out(nm)
                    rep.check(close(out["fch1"], float(freqs[2 + 2 * i]), 1e-10) and out["nchans"] == 2 and abs(out["tstart"] - t0) < US5,
                              "extract_bands (batched): band header (fch1 of first copied channel, nchans, tstart)",
                              function="base.py::Filterbank.extract_bands", input=dict(fch1=fch1, foff=foff, band=i, batch_size=2),
                              observed=dict(fch1=out["fch1"], tstart=out["tstart"]), required=float(freqs[2 + 2 * i]))
                for i, nm in enumerate(names_b):
                    out = read_out(nm)
                    rep.check(close(out["fch1"], float(freqs[4 + 4 * i]), 1e-10) and out["nchans"] == 4 and abs(out["tstart"] - t0) < US5,
                              "extract_bands: band header (fch1 of first copied channel, nchans, tstart)", function="base.py::Filterbank.extract_bands",
                              input=dict(fch1=fch1, foff=foff, band=i), observed=dict(fch1=out["fch1"], tstart=out["tstart"]), required=float(freqs[4 + 4 * i]))
            # ---- a time series derived from the 8-bit file, written as .tim: the header must declare the 32-bit depth on disk
            rep.case(("to_tim", foff))
            try:
                ts_ = fil.read_chan(3, start=2, nsamps=20, quiet=True)
                ptim = ts_.to_tim(os.path.join(tmp, "chan3.tim"))
                out = read_out(ptim)
                rep.check(out["nbits"] == 32 and out["nchans"] == 1 and out["X"].shape[0] == 20 and out["whole"],
                          "to_tim: header nbits / nsamples do not describe the float32 data on disk", function="header.py::Header.prep_outfile",
                          input=dict(foff=foff), observed=dict(nbits=out["nbits"], nsamples=int(out["X"].shape[0])), required=dict(nbits=32, nsamples=20))
            except Exception as exc:  # noqa: BLE001
                rep.fail(f"to_tim raised {type(exc).__name__}", function="timeseries.py::TimeSeries.to_tim", input=dict(foff=foff), observed=str(exc)[:120])
            # ---- block / time series methods
            blk = fil.read_block(4, 24)
            for (ff, tf) in ((1, 2), (2, 3), (4, 1)):
                rep.case(("block.downsample", foff, ff, tf))
                b2 = blk.downsample(ffactor=ff, tfactor=tf)
                h = b2.header
                rep.check(b2.data.shape == (h.nchans, h.nsamples) and close(h.tsamp, blk.header.tsamp * tf) and close(h.foff, foff * ff),
                          "block.downsample header", function="block.py::FilterbankBlock.downsample", input=dict(ff=ff, tf=tf),
                          observed=dict(shape=b2.data.shape, nchans=h.nchans, nsamples=h.nsamples))
            if foff < 0:
                for valid in (False, True):
                    rep.case(("block.dedisperse", foff, valid))
                    b2 = blk.dedisperse(20.0, only_valid_samples=valid)
                    rep.check(b2.data.shape == (b2.header.nchans, b2.header.nsamples) and close(b2.dm, 20.0), "block.dedisperse header/dm",
                              function="block.py::FilterbankBlock.dedisperse", input=dict(valid=valid))
                    ts = b2.get_tim()
                    rep.check(ts.header.nsamples == ts.data.size and ts.header.nchans == 1 and close(ts.header.dm, 20.0), "get_tim header (nsamples, nchans, dm)",
                              function="block.py::FilterbankBlock.get_tim", input=dict(valid=valid), observed=dict(dm=ts.header.dm, nchans=ts.header.nchans))
                    # the applied DM is still recorded after decimating the dedispersed block
                    b3 = b2.downsample(ffactor=2, tfactor=2 if b2.header.nsamples >= 4 else 1)
                    rep.check(close(b3.dm, 20.0) and close(b3.get_tim().header.dm, 20.0),
                              "dedisperse(dm).downsample(): the block no longer records the DM that was applied",
                              function="block.py::FilterbankBlock.downsample", input=dict(valid=valid, dm=20.0),
                              observed=dict(dm=float(b3.dm), tim_dm=float(b3.get_tim().header.dm)), required=20.0)
            ts = fil.collapse(quiet=True)
            for fac in (2, 3, 7):
                rep.case(("ts.downsample", fac))
                t2 = ts.downsample(fac)
                rep.check(t2.header.nsamples == t2.data.size == N // fac and close(t2.header.tsamp, hd.tsamp * fac), "TimeSeries.downsample header",
                          function="timeseries.py::TimeSeries.downsample", input=dict(factor=fac))
            t3 = ts.pad(5)
            rep.case(("ts.pad",))
            rep.check(t3.header.nsamples == t3.data.size == N + 5, "TimeSeries.pad header", function="timeseries.py::TimeSeries.pad", input=5)
    finally:
        shutil.rmtree(tmp, ignore_errors=True)


def sweep(tier, seed):
    rep = Report(dict(channelisations=[(1500.0, -0.1), (1400.0, -1 / 3), (1200.0, -1.0), (300.0, 0.1), (1500.0, -0.390625)], nchans=16, samples=40))
    sweep_impl(rep, tier, seed)
    return rep


def replay(payload):
    rep = Report(dict(mode="replay"))
    sweep_impl(rep, "quick", int(payload.get("seed", 0) or 0))
    return rep


if __name__ == "__main__":
    main(sweep, replay)
