"""C03 bounded stand-in and native replay: bit pack/unpack on the real functions (compiled and .py_func)."""
import numpy as np
from common import Report, main

from sigpyproc.core import kernels
from sigpyproc.io import bits


def spec_unpack(arr, nbits, order):
    f = 8 // nbits
    out = np.zeros(arr.size * f, dtype=np.uint8)
    for j in range(f):
        sh = (f - 1 - j) * nbits if order == "big" else j * nbits
        out[j::f] = (arr >> sh) & ((1 << nbits) - 1)
    return out


def check_arrays(rep, arr, nbits, order, tag):
    f = 8 // nbits
    want = spec_unpack(arr, nbits, order)
    inp = dict(nbits=nbits, bitorder=order, array=arr.tolist() if arr.size <= 64 else f"len {arr.size}")
    for variant in ("nobuf", "buf"):
        buf = None if variant == "nobuf" else np.full(arr.size * f, 0xAA, dtype=np.uint8)
        got = rep.guard(lambda: bits.unpack(arr, nbits, buf, bitorder=order), f"unpack raised ({variant})",
                        function="bits.py::unpack", input=inp)
        rep.case(("unpack", nbits, order, variant, tag, arr.size))
        if got is None:
            continue
        rep.check(np.array_equal(got, want), f"unpack fields ({variant})", function="bits.py::unpack", input=inp,
                  observed=got, required=want)
        if buf is not None:
            rep.check(got is buf, "unpack returns the supplied buffer", function="bits.py::unpack", input=inp)
        pk = rep.guard(lambda: bits.pack(got, nbits, None if variant == "nobuf" else np.zeros(arr.size, np.uint8),
                                         bitorder=order), f"pack raised ({variant})", function="bits.py::pack", input=inp)
        if pk is not None:
            rep.check(np.array_equal(pk, arr), f"pack(unpack(b)) == b ({variant})", function="bits.py::pack", input=inp,
                      observed=pk, required=arr)
    # kernels directly: compiled and python definitions agree with the spec
    for kind in ("jit", "py"):
        kf = getattr(kernels, f"unpack{nbits}_8_{order}")
        pf = getattr(kernels, f"pack{nbits}_8_{order}")
        if kind == "py":
            kf, pf = kf.py_func, pf.py_func
            if arr.size > 64:
                continue
        out = np.zeros(arr.size * f, np.uint8)
        kf(arr, out)
        rep.case(("kernel", nbits, order, kind, tag, arr.size))
        rep.check(np.array_equal(out, want), f"unpack{nbits}_8_{order} ({kind})",
                  function=f"kernels.py::unpack{nbits}_8_{order}", input=inp, observed=out, required=want)
        pk = np.zeros(arr.size, np.uint8)
        pf(want, pk)
        rep.check(np.array_equal(pk, arr), f"pack{nbits}_8_{order} ({kind})",
                  function=f"kernels.py::pack{nbits}_8_{order}", input=inp, observed=pk, required=arr)


def rejections(rep):
    a = np.arange(8, dtype=np.uint8)
    for fn in (bits.unpack, bits.pack):
        name = f"bits.py::{fn.__name__}"
        bad = [
            ("dtype", lambda: fn(a.astype(np.float32), 2)),
            ("nbits 3", lambda: fn(a, 3)), ("nbits 8", lambda: fn(a, 8)), ("nbits 0", lambda: fn(a, 0)),
            ("nbits 16", lambda: fn(a, 16)),
            ("bitorder x", lambda: fn(a, 2, bitorder="x")), ("bitorder empty", lambda: fn(a, 2, bitorder="")),
            ("bitorder middle", lambda: fn(a, 2, bitorder="middle")),
            ("buffer size", lambda: fn(a, 2, np.zeros(5, np.uint8))),
            ("buffer size+1", lambda: fn(a, 1, np.zeros(65 if fn is bits.unpack else 2, np.uint8))),
        ]
        for what, call in bad:
            rep.case(("reject", fn.__name__, what))
            try:
                call()
                rep.fail(f"{fn.__name__} accepted invalid input: {what}", function=name, input=what,
                         required="ValueError")
            except ValueError:
                pass
            except Exception as exc:  # noqa: BLE001
                rep.fail(f"{fn.__name__} raised {type(exc).__name__} instead of ValueError: {what}", function=name,
                         input=what, observed=str(exc), required="ValueError")


def sweep(tier, seed):
    rng = np.random.default_rng(seed)
    lens = [0, 1, 2, 3, 7, 64, 1000] + ([4096, 100003] if tier == "thorough" else [])
    rep = Report(dict(bytes="all 256 values", lengths=lens, orders=["big", "little"], nbits=[1, 2, 4]))
    allb = np.arange(256, dtype=np.uint8)
    for nbits in (1, 2, 4):
        for order in ("big", "little"):
            check_arrays(rep, allb, nbits, order, "all-bytes")
            for n in lens:
                check_arrays(rep, rng.integers(0, 256, n, dtype=np.uint8), nbits, order, f"rand{n}")
            # unpack(pack(v)) == v for in-range samples
            f = 8 // nbits
            v = rng.integers(0, 1 << nbits, 64 * f, dtype=np.uint8)
            rt = rep.guard(lambda: bits.unpack(bits.pack(v, nbits, bitorder=order), nbits, bitorder=order),
                           "unpack(pack(v)) raised", function="bits.py::pack", input=dict(nbits=nbits, bitorder=order))
            rep.case(("rt", nbits, order))
            if rt is not None:
                rep.check(np.array_equal(rt, v), "unpack(pack(v)) == v", function="bits.py::pack",
                          input=dict(nbits=nbits, bitorder=order, v=v.tolist()), observed=rt, required=v)
            # a sample count that is not a whole number of bytes: reproduced or refused, never shortened silently
            for extra in range(1, f):
                v2 = rng.integers(0, 1 << nbits, 3 * f + extra, dtype=np.uint8)
                rep.case(("rt-partial", nbits, order, extra))
                try:
                    rt2 = bits.unpack(bits.pack(v2, nbits, bitorder=order), nbits, bitorder=order)
                except ValueError:
                    continue
                rep.check(np.array_equal(rt2, v2), "unpack(pack(v)) lost samples of an array that is not a whole number of bytes",
                          function="bits.py::pack", input=dict(nbits=nbits, bitorder=order, size=int(v2.size)),
                          observed=int(rt2.size), required=int(v2.size))
    # BitsInfo default orders feed the reader/writer consistently (same order both ways)
    for nbits in (1, 2, 4):
        bi = bits.BitsInfo(nbits)
        rep.case(("bitsinfo", nbits))
        rep.check(bi.bitorder in ("big", "little"), "BitsInfo.bitorder valid", function="bits.py::BitsInfo.bitorder",
                  input=nbits, observed=bi.bitorder)
    rejections(rep)
    return rep


def replay(payload):
    rep = Report(dict(mode="replay"))
    model = payload.get("model") or {}
    name = payload.get("obligation") or ""
    arr = None
    for k in ("array",):
        if isinstance(model.get(k), dict) and model[k].get("elems") is not None:
            try:
                arr = np.array([int(x) & 255 for x in model[k]["elems"]], dtype=np.uint8)
            except (TypeError, ValueError):
                arr = None
    if arr is None or arr.size == 0:
        arr = np.arange(256, dtype=np.uint8)
    for nbits in (1, 2, 4):
        for order in ("big", "little"):
            if f"{nbits}_8_{order}" in name or "bits.py" in name or "clients" in name:
                check_arrays(rep, arr, nbits, order, "replay")
    if "bits.py" in name:
        rejections(rep)
    return rep


if __name__ == "__main__":
    main(sweep, replay)
