"""C18 bounded stand-in / replay: PSRFITS reads are position independent and agree with the SIGPROC path (fixture file)."""
import os
import shutil
import tempfile

import numpy as np
from common import Report, main

from sigpyproc.readers import FilReader, PFITSReader

FIX = os.path.join(os.environ.get("PVC_FIXTURES", "/repo/tests/data"), "parkes_4bit.sf")


def independent_decode(path):
    """(nchans, nsamples) float64, descending frequency: 4/8-bit search-mode PSRFITS, TPF ordering, Coherence/Intensity."""
    from astropy.io import fits
    with fits.open(path, memmap=False) as hdul:
        sub = hdul["SUBINT"]
        hd = sub.header
        nbits, npol, nchan, nsblk = int(hd["NBITS"]), int(hd["NPOL"]), int(hd["NCHAN"]), int(hd["NSBLK"])
        zero_off = float(hd.get("ZERO_OFF", 0.0) or 0.0)
        pol_type = str(hd.get("POL_TYPE", "")).strip()
        rows = []
        freqs = None
        for row in sub.data:
            raw = np.asarray(row["DATA"]).ravel().astype(np.uint8)
            if nbits == 4:
                vals = np.empty(raw.size * 2, dtype=np.float64)
                vals[0::2] = raw >> 4       # first sample in the high nibble
                vals[1::2] = raw & 0x0F
            elif nbits == 8:
                vals = raw.astype(np.float64)
            else:
                raise ValueError(f"nbits {nbits} not handled by the independent decoder")
            vals = vals.reshape(nsblk, npol, nchan)
            scl = np.asarray(row["DAT_SCL"], dtype=np.float64).reshape(npol, nchan)
            offs = np.asarray(row["DAT_OFFS"], dtype=np.float64).reshape(npol, nchan)
            wts = np.asarray(row["DAT_WTS"], dtype=np.float64)[:nchan]
            cal = ((vals - zero_off) * scl[None] + offs[None]) * wts[None, None, :]
            if pol_type in ("AABBCRCI", "AABB") and npol >= 2:
                tot = (cal[:, 0, :] + cal[:, 1, :]) / np.sqrt(2.0)
            else:
                tot = cal[:, 0, :]
            rows.append(tot)
            freqs = np.asarray(row["DAT_FREQ"], dtype=np.float64)[:nchan]
        data = np.concatenate(rows)            # (nsamples, nchans)
        if freqs[1] > freqs[0]:
            data = data[:, ::-1]
        nstot = hd.get("NSTOT")
        if nstot:
            data = data[: int(nstot)]
        return data.T


def synth_psrfits(path, ascending, rng, nsblk=16, nsubint=4, nchan=8, npol=4):
    """A small 8-bit search-mode PSRFITS file (TPF order, coherence products) whose scales, offsets and weights differ from
    channel to channel and from row to row, with the band in either order (astropy only)."""
    from astropy.io import fits
    raw = rng.integers(0, 256, size=(nsubint, nsblk, npol, nchan), dtype=np.uint8)
    scl = rng.integers(1, 5, size=(nsubint, npol * nchan)).astype(np.float32) / 2
    offs = rng.integers(-8, 9, size=(nsubint, npol * nchan)).astype(np.float32)
    wts = rng.integers(0, 5, size=(nsubint, nchan)).astype(np.float32) / 4
    tbin, step = 64e-6, (2.0 if ascending else -2.0)
    freq = 1400.0 + step * np.arange(nchan)
    pri = fits.PrimaryHDU()
    for key, val in {"HDRVER": "6.1", "FITSTYPE": "PSRFITS", "OBSERVER": "X", "PROJID": "P000", "TELESCOP": "Parkes",
                     "ANT_X": -4554231.6, "ANT_Y": 2816759.1, "ANT_Z": -3454036.1, "FRONTEND": "RX", "IBEAM": 1, "NRCVR": 2,
                     "FD_POLN": "LIN", "FD_HAND": -1, "FD_SANG": 0.0, "FD_XYPH": 0.0, "BACKEND": "BE", "BECONFIG": "cfg",
                     "BE_PHASE": 1, "BE_DCC": 1, "BE_DELAY": 0.0, "TCYCLE": 0.0, "OBS_MODE": "SEARCH",
                     "DATE-OBS": "2019-03-01T07:55:14", "OBSFREQ": float(freq.mean()), "OBSBW": step * nchan, "OBSNCHAN": nchan,
                     "CHAN_DM": 0.0, "SRC_NAME": "J0000+0000", "RA": "05:34:31.900", "DEC": "+22:00:52.000", "FD_MODE": "FA",
                     "FA_REQ": 0.0, "STT_IMJD": 58543, "STT_SMJD": 28543, "STT_OFFS": 0.25}.items():
        pri.header[key] = val
    cols = [fits.Column(name="TSUBINT", format="1D", array=np.full(nsubint, nsblk * tbin)),
            fits.Column(name="OFFS_SUB", format="1D", array=(np.arange(nsubint) + 0.5) * nsblk * tbin),
            fits.Column(name="DAT_FREQ", format=f"{nchan}D", array=np.tile(freq, (nsubint, 1))),
            fits.Column(name="DAT_WTS", format=f"{nchan}E", array=wts),
            fits.Column(name="DAT_OFFS", format=f"{nchan * npol}E", array=offs),
            fits.Column(name="DAT_SCL", format=f"{nchan * npol}E", array=scl),
            fits.Column(name="DATA", format=f"{nsblk * npol * nchan}B", dim=f"({nchan},{npol},{nsblk})", array=raw)]
    tab = fits.BinTableHDU.from_columns(cols, name="SUBINT")
    for key, val in {"INT_TYPE": "TIME", "INT_UNIT": "SEC", "SCALE": "FluxDen", "POL_TYPE": "AABBCRCI", "NPOL": npol, "TBIN": tbin,
                     "NBIN": 1, "NBITS": 8, "ZERO_OFF": 2.0, "SIGNINT": 0, "NSUBOFFS": 0, "NCHAN": nchan, "CHAN_BW": step,
                     "NSBLK": nsblk, "NSTOT": nsblk * nsubint}.items():
        tab.header[key] = val
    fits.HDUList([pri, tab]).writeto(path, overwrite=True)


def synthetic_files(rep, tier, seed):
    """Whole-file and sub-range reads of synthetic files with channel-dependent calibration, both band orders."""
    rng = np.random.default_rng(seed + 18)
    tmp = tempfile.mkdtemp(prefix="pvc_c18s_")
    try:
        for ascending in (False, True):
            p = os.path.join(tmp, f"syn_{int(ascending)}.sf")
            inp = dict(file="synthetic 8-bit PSRFITS", ascending_band=ascending, nchan=8, nsblk=16, nsubint=4)
            rep.case(("synthetic", ascending))
            try:
                synth_psrfits(p, ascending, rng)
                ref = independent_decode(p)
            except Exception as exc:  # noqa: BLE001
                rep.fail("could not build / decode the synthetic PSRFITS file", function="bounded/c18.py::synth_psrfits", input=inp, observed=repr(exc)[:200])
                continue
            try:
                r = PFITSReader(p)
                N, nchans = r.header.nsamples, r.header.nchans
                whole = np.asarray(r.read_block(0, N).data)
            except Exception as exc:  # noqa: BLE001
                rep.fail(f"reading the synthetic PSRFITS file raised {type(exc).__name__}", function="readers.py::PFITSReader.read_block", input=inp,
                         observed=str(exc)[:200])
                continue
            scale = max(1.0, float(np.abs(ref).max()))
            rep.check(whole.shape == ref.shape and bool(np.all(np.abs(ref - whole) <= 2e-5 * scale)),
                      "whole-file read differs from (raw - ZERO_OFF) * DAT_SCL + DAT_OFFS, times DAT_WTS, polarisations summed, descending "
                      "frequency (channel-dependent calibration)", function="pfits.py::PFITSFile.read_subint", input=inp,
                      observed=whole[:2, :3].tolist() if whole.ndim == 2 else None, required=ref[:2, :3].tolist())
            for (s, n) in ((0, 16), (5, 7), (13, 6), (9, 40), (31, 33), (N - 1, 1)):
                rep.case(("synthetic-block", ascending, s, n))
                try:
                    b = np.asarray(r.read_block(s, n).data)
                    rep.check(b.shape == (nchans, n) and np.array_equal(b, whole[:, s:s + n]),
                              "read_block differs from the columns of the whole-file read (synthetic file)",
                              function="readers.py::PFITSReader.read_block", input=dict(inp, start=s, nsamps=n))
                except Exception as exc:  # noqa: BLE001
                    rep.fail(f"read_block raised {type(exc).__name__} (synthetic file)", function="readers.py::PFITSReader.read_block",
                             input=dict(inp, start=s, nsamps=n), observed=str(exc)[:120])
            for gulp, sk in ((5, 0), (23, 0), (40, 20), (50, 33)):
                rep.case(("synthetic-plan", ascending, gulp, sk))
                off, ok, why = 0, True, ""
                try:
                    for k, (cnt, ii, d) in enumerate(r.read_plan(gulp=gulp, skipback=sk, quiet=True)):
                        if not np.array_equal(np.asarray(d, dtype=np.float32).reshape(cnt, nchans).T, whole[:, off:off + cnt]):
                            ok, why = False, f"block {k} contents"
                            break
                        off += cnt - sk
                    if ok and off + sk != N:
                        ok, why = False, f"covered {off + sk} of {N}"
                except Exception as exc:  # noqa: BLE001
                    ok, why = False, f"{type(exc).__name__}: {exc}"
                rep.check(ok, "read_plan does not deliver each sample exactly once (synthetic file): " + why,
                          function="readers.py::PFITSReader.read_plan", input=dict(inp, gulp=gulp, skipback=sk))
    finally:
        shutil.rmtree(tmp, ignore_errors=True)


def sweep_impl(rep, tier, seed):
    synthetic_files(rep, tier, seed)
    rng = np.random.default_rng(seed)
    r = PFITSReader(FIX)
    h = r.header
    N, nchans, SB = h.nsamples, h.nchans, r.sub_hdr.subint_samples
    for k in ("foff", "fch1", "tsamp", "tstart"):
        rep.case(("hdr", k))
        rep.check(type(getattr(h, k)) in (float, int, np.float64), f"header.{k} is not a plain number", function="header.py::Header.from_pfits",
                  input=k, observed=str(type(getattr(h, k))))
    rep.check(isinstance(h.nchans, (int, np.integer)) and isinstance(h.nbits, (int, np.integer)), "nchans/nbits not integers",
              function="header.py::Header.from_pfits", input="nchans/nbits")
    whole = np.asarray(r.read_block(0, N).data)
    rep.check(whole.shape == (nchans, N), "whole-file read shape", function="readers.py::PFITSReader.read_block", input=dict(N=N))
    rep.check(h.foff < 0, "channels not in descending-frequency order", function="pfits.py::PFITSFile.read_subints", input="foff", observed=h.foff)
    # independent decoder: the SUBINT table read with astropy directly (not through sigpyproc.io.pfits)
    try:
        ref = independent_decode(FIX)
        rep.case(("independent", "whole"))
        scale = max(1.0, float(np.abs(ref).max()))
        rep.check(ref.shape == whole.shape and bool(np.all(np.abs(ref - whole) <= 2e-5 * scale)),
                  "whole-file read differs from (raw - ZERO_OFF) * DAT_SCL + DAT_OFFS, times DAT_WTS, polarisations summed, descending frequency",
                  function="pfits.py::PFITSFile.read_subint", input=dict(file="parkes_4bit.sf"),
                  observed=whole[:2, :3].tolist(), required=ref[:2, :3].tolist())
    except Exception as exc:  # noqa: BLE001
        rep.fail("independent PSRFITS decoder failed", function="bounded/c18.py::independent_decode", input=dict(file=FIX), observed=repr(exc)[:200])
    reqs = [(0, 1), (0, SB), (SB - 1, 2), (SB - 10, 20), (10, SB), (SB, SB), (1, N - 1), (N - 1, 1), (N - 5, 5), (SB + 7, 33)]
    reqs += [(int(rng.integers(0, N - 1)), 0) for _ in range(6 if tier == "quick" else 60)]
    for (s, n) in reqs:
        if n == 0:
            n = int(rng.integers(1, N - s + 1))
        inp = dict(start=s, nsamps=n, subint_samples=SB, nsamples=N)
        rep.case(("read_block", s, n))
        try:
            b = np.asarray(r.read_block(s, n).data)
        except Exception as exc:  # noqa: BLE001
            rep.fail(f"read_block raised {type(exc).__name__} for an in-range request", function="readers.py::PFITSReader.read_block", input=inp,
                     observed=str(exc)[:120])
            continue
        rep.check(b.shape == (nchans, n) and np.array_equal(b, whole[:, s:s + n]), "read_block differs from the columns of the whole-file read",
                  function="readers.py::PFITSReader.read_block", input=inp)
    for (s, n) in ((-1, 5), (0, N + 1), (N, 1), (N - 3, 4)):
        rep.case(("read_block_oob", s, n))
        try:
            r.read_block(s, n)
            rep.fail("out-of-range read_block accepted", function="readers.py::PFITSReader.read_block", input=dict(start=s, nsamps=n), required="ValueError")
        except ValueError:
            pass
        except Exception as exc:  # noqa: BLE001
            rep.fail(f"out-of-range read_block raised {type(exc).__name__}", function="readers.py::PFITSReader.read_block", input=dict(start=s, nsamps=n))
    plans = [(300, 10, 1000, 0), (700, 2000, 2096, 50), (5000, 0, None, 0), (2048, 1, 4000, 1000), (SB, 0, None, 0), (SB + 1, SB - 1, 3, 1), (97, 5, 500, 40)]
    for (g, s, n, sk) in plans:
        inp = dict(gulp=g, start=s, nsamps=n, skipback=sk)
        rep.case(("read_plan", g, s, n, sk))
        ne = N - s if n is None else n
        off, ok, why = 0, True, ""
        try:
            for k, (cnt, ii, d) in enumerate(r.read_plan(gulp=g, start=s, nsamps=n, skipback=sk, quiet=True)):
                if ii != k or d.size != cnt * nchans or cnt > min(g, ne) or off + cnt > ne or (k > 0 and cnt < sk):
                    ok, why = False, f"block {k}: count={cnt} size={d.size} off={off}"
                    break
                if not np.array_equal(np.asarray(d, dtype=np.float32).reshape(cnt, nchans).T, whole[:, s + off:s + off + cnt]):
                    ok, why = False, f"block {k} contents"
                    break
                off += cnt - sk
            if ok and off + sk != ne:
                ok, why = False, f"covered {off + sk} of {ne}"
        except Exception as exc:  # noqa: BLE001
            ok, why = False, f"{type(exc).__name__}: {exc}"
        rep.check(ok, "read_plan does not deliver each sample exactly once: " + why, function="readers.py::PFITSReader.read_plan", input=inp)
    # agreement with the SIGPROC path: same samples in a 32-bit filterbank file
    tmp = tempfile.mkdtemp(prefix="pvc_c18_")
    try:
        p = os.path.join(tmp, "same.fil")
        with h.prep_outfile(p, nbits=32) as w:
            w.cwrite(whole.T.ravel().astype(np.float32))
        f = FilReader(p)
        for (g, s, n) in ((512, 0, None), (700, 100, 3000), (5000, SB - 3, 50)):
            kw = dict(gulp=g, start=s, nsamps=n, quiet=True)
            for name in ("collapse", "bandpass"):
                rep.case((name, g, s, n))
                try:
                    a, b = getattr(r, name)(**kw).data, getattr(f, name)(**kw).data
                    rep.check(a.shape == b.shape and np.allclose(a, b, rtol=1e-5), f"{name} over PSRFITS differs from the SIGPROC path",
                              function=f"base.py::Filterbank.{name}", input=dict(gulp=g, start=s, nsamps=n))
                except Exception as exc:  # noqa: BLE001
                    rep.fail(f"{name} over PSRFITS raised {type(exc).__name__}", function=f"base.py::Filterbank.{name}", input=dict(gulp=g, start=s, nsamps=n),
                             observed=str(exc)[:160])
            if int(h.get_dmdelays(30.0).max()) >= (N - s if n is None else n):
                continue  # outside the property's domain (maxdelay < nsamps)
            rep.case(("dedisperse", g, s, n))
            try:
                a, b = r.dedisperse(30.0, **kw).data, f.dedisperse(30.0, **kw).data
                rep.check(a.shape == b.shape and np.allclose(a, b, rtol=1e-5), "dedisperse over PSRFITS differs from the SIGPROC path",
                          function="base.py::Filterbank.dedisperse", input=dict(gulp=g, start=s, nsamps=n))
            except Exception as exc:  # noqa: BLE001
                rep.fail(f"dedisperse over PSRFITS raised {type(exc).__name__}", function="base.py::Filterbank.dedisperse", input=dict(gulp=g, start=s, nsamps=n),
                         observed=str(exc)[:160])
    finally:
        shutil.rmtree(tmp, ignore_errors=True)


def sweep(tier, seed):
    rep = Report(dict(file="tests/data/parkes_4bit.sf (4-bit, 2 sub-integrations of 2048 samples, 416 channels)"))
    sweep_impl(rep, tier, seed)
    return rep


def replay(payload):
    rep = Report(dict(mode="replay"))
    sweep_impl(rep, "quick", int(payload.get("seed", 0) or 0))
    return rep


if __name__ == "__main__":
    main(sweep, replay)
