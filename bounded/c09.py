"""C09 bounded stand-in / replay: one dispersion law, applied identically by every dedispersion entry point."""
import os
import shutil
import tempfile

import numpy as np
from common import Report, main, unpack_spec, write_stream

from sigpyproc.block import FilterbankBlock
from sigpyproc.header import Header
from sigpyproc.params import compute_dmdelays
from sigpyproc.readers import FilReader


def law(freqs, dm, tsamp, fref):
    d = 4.148808e3 * dm * (np.asarray(freqs, dtype=np.float64) ** -2 - float(fref) ** -2) / tsamp
    return d


def sweep_impl(rep, tier, seed):
    rng = np.random.default_rng(seed)
    tmp = tempfile.mkdtemp(prefix="pvc_c09_")
    try:
        bands = [(1500.0, -1.0, 32), (400.0, -0.390625, 16), (1400.0, -0.1, 8), (800.0, 2.0, 8)]
        for (fch1, foff, nchans) in bands:
            for tsamp in (6.4e-5, 1e-3):
                N = 96
                data = rng.integers(0, 50, N * nchans, dtype=np.uint8).tobytes()
                d = os.path.join(tmp, f"b{fch1:.0f}_{nchans}_{tsamp}")
                os.makedirs(d, exist_ok=True)
                names = write_stream(d, nchans, 8, data, [], tsamp=tsamp, fch1=fch1, foff=foff)
                fil = FilReader(names)
                hd = fil.header
                X = unpack_spec(data, 8).reshape(N, nchans).astype(np.float64).T  # [c, t]
                freqs = hd.chan_freqs.astype(np.float64)
                for ref in ("ch1", "max", "min", "center", float(freqs[nchans // 3])):
                    fref = {"ch1": hd.fch1, "max": hd.fmax, "min": hd.fmin, "center": hd.fcenter}.get(ref, ref)
                    for dm in (0.0, 3.0, 17.5, -17.5, 60.0):
                        inp = dict(fch1=fch1, foff=foff, nchans=nchans, tsamp=tsamp, ref=ref, dm=dm)
                        rep.case(("law", fch1, nchans, tsamp, str(ref), dm))
                        dl = np.asarray(hd.get_dmdelays(dm, ref_freq=ref), dtype=np.int64)
                        exact = law(freqs, dm, tsamp, fref)
                        # rounded law, allowing float32 evaluation error near a rounding boundary
                        tol = 0.5 + 4e-6 * np.maximum(1.0, np.abs(exact)) + 1e-6
                        rep.check(np.all(np.abs(dl - exact) <= tol), "delays differ from round(4.148808e3*DM*(f^-2 - fref^-2)/tsamp)",
                                  function="params.py::compute_dmdelays", input=inp, observed=dl[:8], required=np.round(exact)[:8])
                        dneg = np.asarray(hd.get_dmdelays(-dm, ref_freq=ref), dtype=np.int64)
                        rep.check(np.array_equal(dneg, -dl), "delays are not antisymmetric in DM", function="params.py::compute_dmdelays", input=inp,
                                  observed=dneg[:8], required=(-dl)[:8])
                        order = np.argsort(freqs)
                        mono = np.diff(dl[order]) * np.sign(dm) <= 0 if dm != 0 else np.zeros(nchans - 1) == 0
                        rep.check(np.all(mono), "delays are not monotone in frequency", function="params.py::compute_dmdelays", input=inp)
                        iref = np.where(np.isclose(freqs, float(fref), rtol=0, atol=1e-9))[0]
                        if iref.size:
                            rep.check(dl[iref[0]] == 0, "delay at the reference frequency is not zero", function="params.py::compute_dmdelays", input=inp)
                # every entry point: out[c, t] = x[c, t + delay_c]
                blk = fil.read_block(0, N)
                for dm in (0.0, 5.0, -5.0, 40.0):
                    dl = np.asarray(hd.get_dmdelays(dm), dtype=np.int64)
                    if dl.max() - dl.min() >= N:
                        continue
                    inp = dict(fch1=fch1, foff=foff, nchans=nchans, tsamp=tsamp, dm=dm, maxdelay=int(dl.max()))
                    rep.case(("rot", fch1, nchans, tsamp, dm))
                    want = np.stack([np.roll(X[c], -dl[c]) for c in range(nchans)])
                    got = blk.dedisperse(dm)
                    rep.check(np.array_equal(got.data, want) and got.dm == dm, "block rotation != x[c,(t+delay_c) mod n]",
                              function="block.py::FilterbankBlock.dedisperse", input=inp)
                    back = got.dedisperse(-dm)
                    rep.check(np.array_equal(back.data, X), "dedisperse(dm) then dedisperse(-dm) is not the identity",
                              function="block.py::FilterbankBlock.dedisperse", input=inp)
                    t0 = max(0, -int(dl.min()))
                    L = N - (max(0, int(dl.max())) - min(0, int(dl.min())))
                    wantv = np.stack([X[c, t0 + dl[c]: t0 + dl[c] + L] for c in range(nchans)])
                    gv = blk.dedisperse(dm, only_valid_samples=True)
                    rep.check(gv.data.shape == wantv.shape and np.array_equal(gv.data, wantv), "valid-samples variant != x[c,t0+j+delay_c]",
                              function="block.py::FilterbankBlock.dedisperse", input=inp, observed=gv.data.shape, required=wantv.shape)
                    if dl.min() < 0:
                        # negative delays (negative DM / rising band): a dedispersed block read starts before `start`
                        st_ = -int(dl.min()) + 2
                        ns = N - st_ - max(0, int(dl.max())) - 1
                        if ns >= 4:
                            rep.case(("dedisp_block_neg", fch1, nchans, tsamp, dm, st_, ns))
                            try:
                                db = fil.read_dedisp_block(st_, ns, dm)
                                wantb = np.stack([X[c, st_ + dl[c]: st_ + dl[c] + ns] for c in range(nchans)])
                                rep.check(db.data.shape == wantb.shape and np.array_equal(db.data, wantb) and db.dm == dm,
                                          "read_dedisp_block != x[c, start+t+delay_c] over its declared length",
                                          function="readers.py::FilReader.read_dedisp_block", input=dict(inp, start=st_, nsamps=ns))
                            except Exception as exc:  # noqa: BLE001
                                rep.fail(f"read_dedisp_block raised {type(exc).__name__}", function="readers.py::FilReader.read_dedisp_block",
                                         input=dict(inp, start=st_, nsamps=ns), observed=str(exc)[:120])
                    if dl.min() >= 0:
                        md = int(dl.max())
                        ws = np.array([sum(X[c, t + dl[c]] for c in range(nchans)) for t in range(N - md)])
                        for gulp in (7, 64, 200):
                            rep.case(("stream", fch1, nchans, tsamp, dm, gulp))
                            ts = fil.dedisperse(dm, gulp=gulp, quiet=True)
                            rep.check(ts.data.shape == ws.shape and np.allclose(ts.data, ws) and ts.header.dm == dm,
                                      "streamed dedispersion != sum_c x[c,t+delay_c]", function="base.py::Filterbank.dedisperse", input=dict(inp, gulp=gulp))
                        # read_dedisp_block
                        for (st_, ns) in ((0, N - md), (3, 20)):
                            if st_ + ns + md > N:
                                continue
                            rep.case(("dedisp_block", fch1, nchans, tsamp, dm, st_, ns))
                            try:
                                db = fil.read_dedisp_block(st_, ns, dm)
                                wantb = np.stack([X[c, st_ + dl[c]: st_ + dl[c] + ns] for c in range(nchans)])
                                rep.check(db.data.shape == wantb.shape and np.array_equal(db.data, wantb) and db.dm == dm,
                                          "read_dedisp_block != x[c, start+t+delay_c] over its declared length",
                                          function="readers.py::FilReader.read_dedisp_block", input=dict(inp, start=st_, nsamps=ns))
                            except Exception as exc:  # noqa: BLE001
                                rep.fail(f"read_dedisp_block raised {type(exc).__name__}", function="readers.py::FilReader.read_dedisp_block",
                                         input=dict(inp, start=st_, nsamps=ns), observed=str(exc)[:120])
                # DM-time transform: each row is the collapsed block dedispersed at the row's reported DM
                for dm in (8.0, 25.0):
                    for valid in (False, True):
                        rep.case(("dmt", fch1, nchans, tsamp, dm, valid))
                        try:
                            dmt = blk.dmt_transform(dm, dmsteps=9, only_valid_samples=valid)
                        except ValueError:
                            continue
                        ok = True
                        for i, dmi in enumerate(dmt.dms):
                            ref_row = blk.dedisperse(float(dmi), only_valid_samples=False).data.sum(axis=0)
                            row = np.asarray(dmt.data[i], dtype=np.float64)
                            if not valid:
                                ok = ok and np.allclose(row, ref_row)
                            else:
                                ok = ok and any(np.allclose(row, ref_row[o:o + row.size]) for o in range(0, ref_row.size - row.size + 1))
                        rep.check(ok, "DM-time rows are not sum_c x[c, t + delay_c(DM_row)]", function="block.py::FilterbankBlock.dmt_transform",
                                  input=dict(fch1=fch1, foff=foff, nchans=nchans, dm=dm, valid=valid))
    finally:
        shutil.rmtree(tmp, ignore_errors=True)


def sweep(tier, seed):
    rep = Report(dict(bands=4, tsamp=[6.4e-5, 1e-3], dms=[0, 3, 17.5, -17.5, 60], refs=["ch1", "max", "min", "center", "numeric"]))
    sweep_impl(rep, tier, seed)
    return rep


def replay(payload):
    rep = Report(dict(mode="replay"))
    sweep_impl(rep, "quick", int(payload.get("seed", 0) or 0))
    return rep


if __name__ == "__main__":
    main(sweep, replay)
