"""C07 (+C04/C08/C20 observations) bounded stand-in / replay: streaming file-to-file transforms vs whole-array definitions.

Every output file is re-read with an independent parser (header length from the HEADER_END marker; samples by
bounded/common.unpack_spec) so that reader defects cannot mask writer defects."""
import os
import shutil
import tempfile

import numpy as np
from common import Report, main, unpack_spec
from c06 import mk

from sigpyproc.readers import FilReader


def read_out(path):
    raw = open(path, "rb").read()
    k = raw.index(b"HEADER_END") + len(b"HEADER_END")
    hdr = raw[:k]

    def field(name, fmt):
        import struct
        i = hdr.index(name.encode()) + len(name)
        return struct.unpack(fmt, hdr[i:i + struct.calcsize(fmt)])[0]
    nbits, nchans = field("nbits", "I"), field("nchans", "I")
    data = raw[k:]
    s = unpack_spec(data, nbits)
    whole = (len(data) * 8) % (nbits * nchans) == 0
    n = s.size // nchans
    return dict(nbits=nbits, nchans=nchans, X=s[: n * nchans].reshape(n, nchans).astype(np.float64), whole=whole,
                tsamp=field("tsamp", "d"), fch1=field("fch1", "d"), foff=field("foff", "d"), tstart=field("tstart", "d"),
                refdm=(field("refdm", "d") if b"refdm" in hdr else None), nbytes=len(data))


def compare(rep, what, fnname, inp, path, want, tol=0.0, nbits_out=None, header=None):
    try:
        out = read_out(path)
    except Exception as exc:  # noqa: BLE001
        rep.fail(f"{what}: output unreadable ({exc})", function=f"base.py::Filterbank.{fnname}", input=inp)
        return
    ok = out["whole"] and out["X"].shape == want.shape and (nbits_out is None or out["nbits"] == nbits_out)
    if ok:
        ok = np.allclose(out["X"], want, rtol=0, atol=tol) if tol else np.array_equal(out["X"], want)
    rep.check(ok, f"{what}: data section differs from the whole-array transform", function=f"base.py::Filterbank.{fnname}",
              input=inp, observed=dict(shape=out["X"].shape, nbits=out["nbits"], whole=out["whole"], head=out["X"].ravel()[:12].tolist()),
              required=dict(shape=want.shape, head=np.asarray(want).ravel()[:12].tolist()))
    if header:
        for k, v in header.items():
            tol_ = 5.8e-11 if k == "tstart" else 1e-9 * max(1.0, abs(v))  # 5 microseconds in days for the epoch
            rep.check(abs(out[k] - v) <= tol_, f"{what}: header {k}", function=f"base.py::Filterbank.{fnname}",
                      input=inp, observed=out[k], required=v)


def one_file(rep, tmp, fil, X, nbits, gulp, start, nsamps, tag, tier):
    N, nchans = X.shape
    n = (N - start) if nsamps is None else nsamps
    sub = X[start:start + n]
    hd = fil.header
    inp = dict(nbits=nbits, nchans=nchans, nsamples=N, gulp=gulp, start=start, nsamps=nsamps, files=tag)
    kw = dict(gulp=gulp, start=start, nsamps=nsamps, quiet=True)
    o = os.path.join(tmp, "out.fil")
    tst = hd.tstart + start * hd.tsamp / 86400.0

    def run(what, fnname, call, want, **cmpkw):
        rep.case((what, nbits, tag, gulp, start, nsamps))
        for f in os.listdir(tmp):
            if f.startswith("out"):
                os.remove(os.path.join(tmp, f))
        try:
            res = call()
        except Exception as exc:  # noqa: BLE001
            rep.fail(f"{what} raised {type(exc).__name__}", function=f"base.py::Filterbank.{fnname}", input=inp, observed=str(exc)[:200])
            return None
        if want is not None:
            compare(rep, what, fnname, inp, o, want, **cmpkw)
        return res

    run("invert_freq", "invert_freq", lambda: fil.invert_freq(o, **kw), sub[:, ::-1], nbits_out=nbits,
        header=dict(fch1=hd.fch1 + (nchans - 1) * hd.foff, foff=-hd.foff, tstart=tst))
    mask = np.zeros(nchans, bool)
    mask[[1, nchans - 2]] = True
    mv = 1 if nbits < 8 else 7
    want = sub.copy()
    want[:, mask] = mv
    run("apply_channel_mask", "apply_channel_mask", lambda: fil.apply_channel_mask(mask, mv, o, **kw), want, nbits_out=nbits,
        header=dict(tstart=tst))
    run("extract_samps", "extract_samps", lambda: fil.extract_samps(start, n, o, gulp=gulp, quiet=True), sub, nbits_out=nbits,
        header=dict(tstart=tst))
    # requantize to the same depth is the identity on the data section (C20 writer)
    run("requantize", "requantize", lambda: fil.requantize(nbits, o, **kw), sub, nbits_out=nbits)
    for (tf, ff) in ((1, 1), (2, 1), (1, 2), (2, 4), (3, 2)):
        if nchans % ff or (nchans // ff) * nbits % 8:
            continue
        m = n // tf
        blk = sub[: m * tf].reshape(m, tf, nchans // ff, ff).mean(axis=(1, 3))
        want = blk if nbits == 32 else np.floor(blk)
        run(f"downsample({tf},{ff})", "downsample", lambda: fil.downsample(tf, ff, o, **kw), want, nbits_out=nbits,
            tol=1e-3 if nbits == 32 else 0.0, header=dict(tsamp=hd.tsamp * tf, foff=hd.foff * ff, tstart=tst))
    # zero-DM removal: within one quantisation level when nothing leaves the representable range
    bp = X.mean(axis=0)
    if bp.sum() > 0:
        w = bp / bp.sum()
        val = sub - sub.sum(axis=1, keepdims=True) * w[None, :] + bp[None, :]
        hi = (1 << nbits) - 1 if nbits < 32 else 1e30
        if nbits == 32 or (val.min() >= 0 and val.max() < hi):
            run("remove_zerodm", "remove_zerodm", lambda: fil.remove_zerodm(o, **kw), val, nbits_out=nbits,
                tol=1e-3 if nbits == 32 else 1.0 + 1e-3)
    # sub-banding
    for dm in (0.0, 30.0):
        delays = hd.get_dmdelays(dm)
        md = int(delays.max())
        for nsub in (1, 2, nchans):
            if md >= n or delays.min() < 0:
                continue
            fac = nchans // nsub
            want = np.zeros((n - md, nsub))
            for c in range(nchans):
                want[:, c // fac] += sub[delays[c]:delays[c] + n - md, c]
            osub = os.path.join(tmp, "out.fil")
            run(f"subband(dm={dm},nsub={nsub})", "subband", lambda: fil.subband(dm, nsub, osub, **kw), want, nbits_out=32, tol=1e-3)
    # channel / band extraction
    chans = [0, nchans - 1, 3]
    for bs in (200, 2):  # one batch of open files, and several batches
        rep.case(("extract_chans", nbits, tag, gulp, start, nsamps, bs))
        try:
            names = fil.extract_chans(chans, os.path.join(tmp, "outc"), batch_size=bs, gulp=gulp, start=start, nsamps=nsamps, quiet=True)
            rep.check(len(names) == len(chans), "extract_chans: number of files", function="base.py::Filterbank.extract_chans", input=inp)
            for ch, nm in zip(chans, names):
                compare(rep, f"extract_chans[{ch}]", "extract_chans", dict(inp, batch_size=bs), nm, sub[:, [ch]], nbits_out=32,
                        header=dict(fch1=hd.fch1 + ch * hd.foff))
        except Exception as exc:  # noqa: BLE001
            rep.fail(f"extract_chans raised {type(exc).__name__}", function="base.py::Filterbank.extract_chans", input=inp, observed=str(exc)[:200])
    for (c0, nc, per, bs) in ((0, nchans, None, 200), (2, 4, 2, 200), (0, 4, 4, 200), (4, 4, 2, 200), (0, 8, 2, 3), (2, 6, 2, 1)):
        if (nbits < 8 and ((per or nc) * nbits) % 8) or c0 + nc > nchans:
            continue
        rep.case(("extract_bands", nbits, tag, gulp, start, nsamps, c0, nc, per, bs))
        try:
            names = fil.extract_bands(c0, nc, per, os.path.join(tmp, "outb"), batch_size=bs, gulp=gulp, start=start, nsamps=nsamps, quiet=True)
            p = per or nc
            rep.check(len(names) == nc // p, "extract_bands: number of files", function="base.py::Filterbank.extract_bands",
                      input=dict(inp, chanstart=c0, nchans_sel=nc, chanpersub=per), observed=len(names), required=nc // p)
            for i, nm in enumerate(names[: nc // p]):
                compare(rep, f"extract_bands[{i}]", "extract_bands", dict(inp, chanstart=c0, nchans_sel=nc, chanpersub=per), nm,
                        sub[:, c0 + i * p: c0 + (i + 1) * p], nbits_out=nbits, header=dict(fch1=hd.fch1 + (c0 + i * p) * hd.foff))
        except Exception as exc:  # noqa: BLE001
            rep.fail(f"extract_bands raised {type(exc).__name__}", function="base.py::Filterbank.extract_bands",
                     input=dict(inp, chanstart=c0, nchans_sel=nc, chanpersub=per), observed=str(exc)[:200])
    rep.case(("extract_chans-range", nbits, tag))
    try:
        fil.extract_chans([0, nchans + 91], os.path.join(tmp, "outx"), gulp=gulp, quiet=True)
        rep.fail("extract_chans accepted an out-of-range channel", function="base.py::Filterbank.extract_chans", input=inp)
    except ValueError:
        pass
    except Exception as exc:  # noqa: BLE001
        rep.fail(f"extract_chans out-of-range channel raised {type(exc).__name__} instead of ValueError",
                 function="base.py::Filterbank.extract_chans", input=inp, observed=str(exc)[:100])


def sweep_impl(rep, tier, seed):
    rng = np.random.default_rng(seed)
    tmp = tempfile.mkdtemp(prefix="pvc_c07_")
    try:
        N = 20
        for nbits in (1, 2, 4, 8, 32):
            for tag, splits in (("1 file", None), ("2 files", [9])):
                if tier == "quick" and tag != "1 file" and nbits in (2, 4):
                    continue
                names, X = mk(tmp, nbits, 8, N, rng, splits, tag.replace(" ", ""))
                fil = FilReader(names, check_contiguity=False)
                gulps = [3, 8, 40] if tier == "quick" else [1, 2, 3, 5, 8, 20, 40]
                ranges = [(0, None), (4, 11), (13, None)] if tier == "quick" else [(0, None), (0, 7), (4, 11), (13, None), (19, 1), (6, 12)]
                for gulp in gulps:
                    for (start, nsamps) in ranges:
                        one_file(rep, tmp, fil, X, nbits, gulp, start, nsamps, tag, tier)
    finally:
        shutil.rmtree(tmp, ignore_errors=True)


def sweep(tier, seed):
    rep = Report(dict(samples=20, nchans=8, depths=[1, 2, 4, 8, 32], files=[1, 2]))
    sweep_impl(rep, tier, seed)
    return rep


def replay(payload):
    rep = Report(dict(mode="replay"))
    sweep_impl(rep, "quick", int(payload.get("seed", 0) or 0))
    name = payload.get("obligation") or ""
    for fn in ("invert_freq", "apply_channel_mask", "extract_samps", "downsample", "remove_zerodm", "subband", "extract_chans",
               "extract_bands", "requantize"):
        if "Filterbank." + fn in name:
            rep.failures = [f for f in rep.failures if fn in (f.get("function") or "")]
    return rep


if __name__ == "__main__":
    main(sweep, replay)
