"""C16 bounded stand-in / replay: RFI mask algebra, cleaned file contents for every gulp, mask file round trip."""
import os
import shutil
import tempfile

import numpy as np
from common import Report, main
from c06 import mk
from c07 import read_out

from sigpyproc.core import rfi
from sigpyproc.core.rfi import RFIMask
from sigpyproc.readers import FilReader


def _z(d, scale):
    """z-scores with the library's fall-back to unit scale for a zero / undefined scale"""
    scale = np.where((np.abs(scale) <= 1e-8) | ~np.isfinite(scale), 1.0, scale)
    return (d - np.median(d)) / scale


def ref_iqrm(x, thr, radius=5):
    """IQRM by its definition: for every lag in [-radius..-1, 1..radius] the differences x[i] - x[i+lag] (edge value
    repeated outside the band) are standardised by their median and normalised inter-quartile range; a channel is
    flagged when any |z| exceeds the threshold.  Returns (sure-outliers, undecided: some |z| within 1e-3 of thr)."""
    x = np.asarray(x, dtype=np.float64)
    n = len(x)
    out = np.zeros(n, dtype=bool)
    near = np.zeros(n, dtype=bool)
    for lag in list(range(-radius, 0)) + list(range(1, radius + 1)):
        idx = np.clip(np.arange(n) + lag, 0, n - 1)
        d = x - x[idx]
        q25, q75 = np.percentile(d, [25, 75])
        z = np.abs(_z(d, (q75 - q25) / 1.3489795003921634))
        out |= z > thr
        near |= np.abs(z - thr) <= 1e-3 * thr
    return out, near


def ref_doublemad(x, thr):
    x = np.asarray(x, dtype=np.float64)
    med = np.median(x)
    dev = np.abs(x - med)
    norm, norm_aad = 0.6744897501960817, np.sqrt(2 / np.pi)
    left, right = dev[x <= med], dev[x >= med]
    ml, mr = np.median(left) / norm, np.median(right) / norm
    if abs(ml) <= 1e-8:
        ml = left.mean() / norm_aad
    if abs(mr) <= 1e-8:
        mr = right.mean() / norm_aad
    scale = np.where(x < med, ml, mr)
    scale = np.where((np.abs(scale) <= 1e-8) | ~np.isfinite(scale), 1.0, scale)
    z = np.abs((x - med) / scale)
    return z > thr, np.abs(z - thr) <= 1e-3 * thr


def sweep_impl(rep, tier, seed):
    rng = np.random.default_rng(seed)
    tmp = tempfile.mkdtemp(prefix="c16_")
    try:
        configs = [(8, 16, 96), (32, 8, 64)] if tier == "quick" else [(8, 16, 96), (32, 8, 64), (8, 32, 257), (32, 24, 130)]
        for (nbits, nchans, N) in configs:
            names, X = mk(tmp, nbits, nchans, N, rng, tag=f"r{nbits}_{nchans}")
            # make a few channels statistical outliers
            fil = FilReader(names)
            hd = fil.header
            freqs = hd.fch1 + hd.foff * np.arange(nchans)
            ranges_list = [None, [(freqs[2], freqs[2])], [(freqs[5] - 1e-3, freqs[3] + 1e-3), (freqs[nchans - 1], freqs[nchans - 2])],
                           [(freqs[1] + 0.4 * abs(hd.foff), freqs[1] + 0.6 * abs(hd.foff))]]
            customs = [None, lambda m: np.roll(m, 1), lambda m: np.arange(len(m)) % 7 == 0]
            gulps = [7, N, 4 * N] if tier == "quick" else [1, 7, 32, N - 1, N, 4 * N]
            for method in ("mad", "iqrm"):
                for ri, ranges in enumerate(ranges_list):
                    for ci, custom in enumerate(customs):
                        ref_mask = None
                        for gulp in gulps:
                            rep.case((nbits, nchans, N, method, ri, ci, gulp))
                            inp = dict(nbits=nbits, nchans=nchans, nsamples=N, method=method, freq_mask=ranges, custom=ci, gulp=gulp, seed=seed)
                            fil = FilReader(names)
                            out = os.path.join(tmp, f"clean_{nbits}_{method}_{ri}_{ci}_{gulp}.fil")
                            maskvalue = 3
                            try:
                                out_name, mask = fil.clean_rfi(method=method, threshold=3, freq_mask=ranges, custom_funcn=custom,
                                                               mask_value=maskvalue, outfile_name=out, gulp=gulp, quiet=True)
                            except Exception as exc:  # noqa: BLE001
                                rep.fail("clean_rfi raised", function="base.py::Filterbank.clean_rfi", input=inp, observed=repr(exc))
                                continue
                            user = np.zeros(nchans, dtype=bool)
                            for (lo, hi) in (ranges or []):
                                user |= (np.float32(freqs).astype(np.float64) >= lo) & (np.float32(freqs).astype(np.float64) <= hi)
                            rep.check(np.array_equal(mask.user_mask, user), "user mask is not the set of channels whose centre lies in a given closed range",
                                      function="core/rfi.py::RFIMask.apply_mask", input=inp, observed=np.nonzero(mask.user_mask)[0].tolist(),
                                      required=np.nonzero(user)[0].tolist())
                            fn = rfi.double_mad_mask if method == "mad" else rfi.iqrm_mask
                            stats = fn(mask.chan_var, 3) | fn(mask.chan_skew, 3) | fn(mask.chan_kurt, 3)
                            rep.check(np.array_equal(mask.stats_mask, stats), "stats mask is not the union of the variance/skewness/kurtosis outliers",
                                      function="core/rfi.py::RFIMask.apply_method", input=inp)
                            # ... and against an independent evaluation of the outlier rule (channels whose statistic sits
                            # within 0.1 % of the threshold are left out: float32 vs float64)
                            ref_fn = ref_doublemad if method == "mad" else ref_iqrm
                            sure = np.zeros(nchans, dtype=bool)
                            near = np.zeros(nchans, dtype=bool)
                            for stat in (mask.chan_var, mask.chan_skew, mask.chan_kurt):
                                o_, n_ = ref_fn(stat, 3)
                                sure |= o_
                                near |= n_
                            ok_stats = bool(np.all((mask.stats_mask == sure) | near))
                            rep.check(ok_stats, "stats mask differs from the outlier rule evaluated independently (variance/skewness/kurtosis beyond the threshold)",
                                      function=f"core/rfi.py::{'double_mad_mask' if method == 'mad' else 'iqrm_mask'}", input=inp,
                                      observed=np.nonzero(mask.stats_mask & ~near)[0].tolist()[:20], required=np.nonzero(sure & ~near)[0].tolist()[:20])
                            union = mask.user_mask | mask.stats_mask | mask.custom_mask
                            rep.check(np.array_equal(mask.chan_mask, union), "channel mask is not the union of user, stats and custom masks",
                                      function="core/rfi.py::RFIMask", input=inp, observed=np.nonzero(mask.chan_mask)[0].tolist(),
                                      required=np.nonzero(union)[0].tolist())
                            if custom is not None:
                                before = mask.user_mask | mask.stats_mask
                                rep.check(np.array_equal(mask.custom_mask, np.asarray(custom(before), dtype=bool)),
                                          "custom mask is not the callback applied to the mask so far", function="core/rfi.py::RFIMask.apply_funcn", input=inp)
                            if ref_mask is None:
                                ref_mask = mask.chan_mask.copy()
                            rep.check(np.array_equal(mask.chan_mask, ref_mask), "mask depends on the gulp size", function="base.py::Filterbank.clean_rfi", input=inp)
                            # cleaned file: masked channels == mask value, others bit-identical
                            try:
                                o = read_out(out_name)
                            except Exception as exc:  # noqa: BLE001
                                rep.fail("cleaned file unreadable", function="base.py::Filterbank.apply_channel_mask", input=inp, observed=repr(exc))
                                continue
                            want = X.copy()
                            want[:, mask.chan_mask] = maskvalue
                            rep.check(o["X"].shape == want.shape and np.array_equal(o["X"], want) and o["nbits"] == nbits,
                                      "cleaned file: masked channels != mask value or unmasked samples changed",
                                      function="base.py::Filterbank.apply_channel_mask", input=inp)
                            # further masks only add channels
                            m0 = mask.chan_mask.copy()
                            mask.apply_mask([(freqs[0], freqs[0])])
                            rep.check(bool(np.all(mask.chan_mask[m0])) and mask.chan_mask[0], "a further mask removed channels",
                                      function="core/rfi.py::RFIMask.apply_mask", input=inp)
                            # mask file round trip
                            if gulp == gulps[0]:
                                mf = os.path.join(tmp, "mask.h5")
                                mask.to_file(mf)
                                back = RFIMask.from_file(mf)
                                ok = all(np.array_equal(getattr(back, k), getattr(mask, k)) for k in
                                         ("chan_mean", "chan_var", "chan_skew", "chan_kurt", "chan_maxima", "chan_minima", "chan_mask", "user_mask",
                                          "stats_mask", "custom_mask"))
                                ok = ok and back.threshold == mask.threshold and back.header.nchans == mask.header.nchans \
                                    and back.header.fch1 == mask.header.fch1 and back.header.foff == mask.header.foff \
                                    and back.header.tsamp == mask.header.tsamp and back.header.nbits == mask.header.nbits
                                rep.check(ok, "mask file round trip changed arrays, threshold or header", function="core/rfi.py::RFIMask.from_file", input=inp)
                            os.remove(out_name)
        # ---- an ascending band (fch1 is the LOWEST frequency, foff > 0): ranges that are not symmetric about the band centre
        from common import unpack_spec, write_stream
        nchans, N = 12, 40
        data = rng.integers(0, 256, nchans * N, dtype=np.uint8).tobytes()
        d = os.path.join(tmp, "asc")
        os.makedirs(d, exist_ok=True)
        names = write_stream(d, nchans, 8, data, [], tsamp=0.001, fch1=1000.0, foff=10.0)
        X = unpack_spec(data, 8).reshape(N, nchans).astype(np.float64)
        freqs = 1000.0 + 10.0 * np.arange(nchans)
        for ri, ranges in enumerate([[(freqs[1], freqs[3])], [(freqs[0] - 1, freqs[0] + 1), (freqs[8], freqs[10] + 4.0)], [(freqs[nchans - 1], freqs[nchans - 1])]]):
            for gulp in (7, 4 * N):
                rep.case(("ascending", ri, gulp))
                inp = dict(nbits=8, nchans=nchans, nsamples=N, foff=10.0, fch1=1000.0, freq_mask=ranges, gulp=gulp, seed=seed)
                fil = FilReader(names)
                out = os.path.join(tmp, f"clean_asc_{ri}_{gulp}.fil")
                try:
                    out_name, mask = fil.clean_rfi(method="mad", threshold=3, freq_mask=ranges, mask_value=3, outfile_name=out, gulp=gulp, quiet=True)
                except Exception as exc:  # noqa: BLE001
                    rep.fail("clean_rfi raised (ascending band)", function="base.py::Filterbank.clean_rfi", input=inp, observed=repr(exc))
                    continue
                user = np.zeros(nchans, dtype=bool)
                for (lo, hi) in ranges:
                    user |= (freqs >= lo) & (freqs <= hi)
                rep.check(np.array_equal(mask.user_mask, user),
                          "user mask is not the set of channels whose centre lies in a given closed range (ascending band)",
                          function="core/rfi.py::RFIMask.apply_mask", input=inp, observed=np.nonzero(mask.user_mask)[0].tolist(),
                          required=np.nonzero(user)[0].tolist())
                rep.check(bool(np.all(mask.chan_mask[user])), "a user-masked channel is missing from the channel mask (ascending band)",
                          function="core/rfi.py::RFIMask.apply_mask", input=inp)
                o = read_out(out_name)
                want = X.copy()
                want[:, mask.chan_mask] = 3
                rep.check(o["X"].shape == want.shape and np.array_equal(o["X"], want),
                          "cleaned file: masked channels != mask value or unmasked samples changed (ascending band)",
                          function="base.py::Filterbank.apply_channel_mask", input=inp)
                os.remove(out_name)
    finally:
        shutil.rmtree(tmp, ignore_errors=True)


def sweep(tier, seed):
    rep = Report(dict(files="8/32-bit, 8..32 channels, 64..257 samples", gulps="1..4N", methods=["mad", "iqrm"], ranges=4, customs=3))
    sweep_impl(rep, tier, seed)
    return rep


def replay(payload):
    rep = Report(dict(mode="replay"))
    sweep_impl(rep, "quick", int(payload.get("seed", 0) or 0))
    return rep


if __name__ == "__main__":
    main(sweep, replay)
