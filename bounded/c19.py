"""C19 bounded stand-in / replay: each parallel kernel vs its own Python definition (.py_func) on exact
(integer-valued) data, across thread counts, chunk sizes and repetitions."""
import numba
import numpy as np
from common import Report, main

from sigpyproc.core import kernels as K


def cases(rng, shape):
    nchans, nsamps = shape
    data = rng.integers(0, 200, nchans * nsamps).astype(np.float32)
    maxdelay = min(3, max(nsamps - 1, 0))
    delays = rng.integers(0, maxdelay + 1, nchans).astype(np.int32)
    nsubs = 1 if nchans < 2 else 2
    c2s = (np.arange(nchans) * nsubs // max(nchans, 1)).astype(np.int32)
    mask = rng.integers(0, 2, nchans).astype(bool)
    bp = rng.integers(0, 8, nchans).astype(np.float32)
    wts = np.zeros(nchans, np.float32)  # exact arithmetic: zero weights and integer bandpass
    mom_dtype = K.moments_dtype

    def run_extract_tim(f):
        out = np.zeros(nsamps + 2, np.float32)
        f(data, out, nchans, nsamps, 1)
        return out

    def run_extract_bpass(f):
        out = np.ones(nchans, np.float32)
        f(data, out, nchans, nsamps)
        return out

    def run_mask(f):
        d = data.copy()
        f(d, mask, np.float32(7), nchans, nsamps)
        return d

    def run_dedisp(f):
        out = np.zeros(max(nsamps - maxdelay, 0) + 1, np.float32)
        f(data, out, delays, maxdelay, nchans, nsamps, 1)
        return out

    def run_invert(f):
        return f(data, nchans, nsamps)

    def run_subband(f):
        out = np.zeros(max(nsamps - maxdelay, 0) * nsubs, np.float32)
        f(data, out, delays, c2s, maxdelay, nchans, nsubs, nsamps)
        return out

    def run_zerodm(f):
        out = np.zeros(nchans * nsamps, np.float32)
        f(data, out, bp, wts, nchans, nsamps)
        return out

    def run_moments(f):
        m = np.zeros(nchans, dtype=mom_dtype)
        small = (data % 4).astype(np.float32)  # small integers: every moment update is exact in float32? no -> compare to py_func only
        f(small, m, 0)
        return np.array([list(x) for x in m.tolist()], dtype=np.float64)

    def run_ds1(f):
        return f(data, 2)

    def run_ds2(f):
        return f(data, 1, 1, nsamps, nchans)

    return [
        ("extract_tim", K.extract_tim, run_extract_tim),
        ("extract_bpass", K.extract_bpass, run_extract_bpass),
        ("mask_channels", K.mask_channels, run_mask),
        ("dedisperse", K.dedisperse, run_dedisp),
        ("invert_freq", K.invert_freq, run_invert),
        ("subband", K.subband, run_subband),
        ("remove_zerodm", K.remove_zerodm, run_zerodm),
        ("compute_online_moments", K.compute_online_moments, run_moments),
        ("compute_online_moments_basic", K.compute_online_moments_basic, run_moments),
        ("downsample_1d_mean_parallel", K.downsample_1d_mean_parallel, run_ds1),
        ("downsample_2d_mean_parallel", K.downsample_2d_mean_parallel, run_ds2),
    ]


def sweep_impl(rep, tier, seed, only=None):
    rng = np.random.default_rng(seed)
    maxthr = numba.config.NUMBA_NUM_THREADS
    threads = sorted({1, 2, 3, maxthr}) if tier == "quick" else list(range(1, maxthr + 1))
    chunks = [0, 1, 3] if tier == "quick" else [0, 1, 2, 3, 7]
    shapes = [(1, 1), (1, 5), (4, 1), (8, 33), (16, 200)] + ([(64, 1000)] if tier == "thorough" else [])
    reps = 2 if tier == "quick" else 5
    rep.bounds.update(threads=threads, chunksizes=chunks, shapes=shapes, repetitions=reps)
    for shape in shapes:
        for name, fn, runner in cases(rng, shape):
            if only and only not in name:
                continue
            py = getattr(fn, "py_func", None)
            try:
                ref = runner(py)
            except Exception as exc:  # noqa: BLE001
                rep.fail(f"{name}: python definition raised", function=f"kernels.py::{name}", input=dict(shape=shape),
                         observed=f"{type(exc).__name__}: {exc}")
                continue
            for nt in threads:
                numba.set_num_threads(nt)
                for ch in chunks:
                    numba.set_parallel_chunksize(ch)
                    for r in range(reps):
                        try:
                            got = runner(fn)
                        except Exception as exc:  # noqa: BLE001
                            rep.fail(f"{name}: compiled kernel raised", function=f"kernels.py::{name}",
                                     input=dict(shape=shape, threads=nt, chunk=ch), observed=f"{type(exc).__name__}: {exc}")
                            continue
                        finally:
                            numba.set_parallel_chunksize(0)
                        rep.case((name, shape, nt, ch), dict(kernel=name, shape=shape, threads=nt, chunk=ch))
                        same = np.array_equal(np.asarray(got), np.asarray(ref), equal_nan=True)
                        if not same and "moments" in name:
                            same = np.allclose(np.asarray(got), np.asarray(ref), rtol=1e-5, atol=1e-5, equal_nan=True)
                        rep.check(same, f"{name}: differs from sequential definition", function=f"kernels.py::{name}",
                                  input=dict(shape=shape, threads=nt, chunk=ch, rep=r), observed=got, required=ref)
    numba.set_num_threads(maxthr)


def sweep(tier, seed):
    rep = Report(dict(kernels=11))
    sweep_impl(rep, tier, seed)
    return rep


def replay(payload):
    rep = Report(dict(mode="replay"))
    name = (payload.get("obligation") or "")
    only = None
    for k in ("extract_tim", "extract_bpass", "mask_channels", "dedisperse", "invert_freq", "subband", "remove_zerodm",
              "compute_online_moments_basic", "compute_online_moments", "downsample_1d_mean", "downsample_2d_mean"):
        if "::" + k in name:
            only = k
            break
    sweep_impl(rep, "thorough", int(payload.get("seed", 0) or 0), only)
    return rep


if __name__ == "__main__":
    main(sweep, replay)
