"""C02 bounded stand-in / replay: multi-file streams against a plain byte-array model (real FileReader)."""
import itertools
import os
import shutil
import tempfile

import numpy as np
from common import Report, main, unpack_spec, write_stream

from sigpyproc.io import sigproc
from sigpyproc.io.fileio import FileReader
from sigpyproc.readers import FilReader


def open_reader(names, nbits):
    hdr = sigproc.parse_header_multi(names, check_contiguity=False)
    return FileReader(hdr["stream_info"], mode="r", nbits=nbits)


def run_ops(rep, names, data, nbits, ops, tag):
    """ops: list of ('seek0', off) | ('seek1', off) | ('cread', nunits) | ('creadinto', nbytes)"""
    isz = {16: 2, 32: 4}.get(nbits, 1)
    f = 8 // nbits if nbits < 8 else 1
    total = len(data)
    fr = open_reader(names, nbits)
    pos = 0
    inp = dict(nbits=nbits, file_datalens=[os.path.getsize(n) for n in names], total=total, ops=ops, tag=tag)
    try:
        for k, (op, arg) in enumerate(ops):
            what = f"{op}({arg}) at model position {pos}"
            try:
                if op in ("seek0", "seek1"):
                    target = arg if op == "seek0" else pos + arg
                    ok = 0 <= target < total
                    try:
                        fr.seek(arg, 0 if op == "seek0" else 1)
                        if not ok:
                            rep.fail(f"seek accepted out-of-range target: {what}", function="fileio.py::FileReader.seek",
                                     input=inp, required="ValueError")
                            return
                        pos = target
                    except ValueError:
                        if ok:
                            rep.fail(f"seek rejected in-range target: {what}", function="fileio.py::FileReader.seek", input=inp)
                            return
                elif op == "cread":
                    count = arg // f
                    need = count * isz
                    try:
                        got = fr.cread(arg)
                    except ValueError:
                        if pos + need <= total:
                            rep.fail(f"cread raised inside the stream: {what}", function="fileio.py::FileReader.cread", input=inp)
                        return
                    if pos + need > total:
                        rep.fail(f"cread past the end did not raise: {what}", function="fileio.py::FileReader.cread",
                                 input=inp, required="ValueError")
                        return
                    want = unpack_spec(data[pos:pos + need], nbits)
                    if not (got.shape == want.shape and np.array_equal(got.view(np.uint8) if nbits == 32 else got,
                                                                      want.view(np.uint8) if nbits == 32 else want)):
                        rep.fail(f"cread returned wrong data: {what}", function="fileio.py::FileReader.cread", input=inp,
                                 observed=got, required=want)
                        return
                    pos += need
                elif op == "creadinto":
                    buf = bytearray(b"\xAA" * arg)
                    ubuf = bytearray(arg * f) if nbits < 8 else None
                    n = fr.creadinto(buf, ubuf)
                    m = min(arg, total - pos)
                    if n != m or bytes(buf[:m]) != bytes(data[pos:pos + m]) or bytes(buf[m:]) != b"\xAA" * (arg - m):
                        rep.fail(f"creadinto wrong bytes/count: {what}", function="fileio.py::FileReader.creadinto",
                                 input=inp, observed=dict(n=n, buf=list(buf[:16])), required=dict(n=m, buf=list(data[pos:pos + 16])))
                        return
                    if ubuf is not None and not np.array_equal(np.frombuffer(ubuf, np.uint8), unpack_spec(buf, nbits)):
                        rep.fail(f"creadinto unpack buffer wrong: {what}", function="fileio.py::FileReader.creadinto", input=inp)
                        return
                    pos += m
                if pos < total or op.startswith("seek"):
                    rp = fr.cur_data_pos_stream
                    if rp != pos and not (pos == total):
                        rep.fail(f"reported stream position {rp} != model {pos} after {what}",
                                 function="fileio.py::FileReader.cur_data_pos_stream", input=inp, observed=rp, required=pos)
                        return
            except Exception as exc:  # noqa: BLE001
                rep.fail(f"unexpected {type(exc).__name__} in {what}: {exc}", function="fileio.py::FileReader", input=inp)
                return
    finally:
        fr.close()


def read_block_checks(rep, names, data, nchans, nbits, rng, exhaustive):
    samples = unpack_spec(data, nbits)
    nsamp = samples.size // nchans
    X = samples[: nsamp * nchans].reshape(nsamp, nchans)
    fil = FilReader(names, check_contiguity=False)
    pairs = list(itertools.product(range(-1, nsamp + 2), range(0, nsamp + 3))) if exhaustive else \
        [(int(rng.integers(-1, nsamp + 2)), int(rng.integers(0, nsamp + 3))) for _ in range(12)]
    for start, n in pairs:
        inp = dict(nbits=nbits, nchans=nchans, nsamples=nsamp, files=len(names), start=start, nsamps=n)
        rep.case(("read_block", nbits, len(names), start, n))
        inrange = start >= 0 and n >= 1 and start + n <= nsamp
        try:
            blk = fil.read_block(start, n)
        except ValueError:
            if inrange:
                rep.fail("read_block raised for an in-range request", function="readers.py::FilReader.read_block", input=inp)
            continue
        except Exception as exc:  # noqa: BLE001
            rep.fail(f"read_block raised {type(exc).__name__}: {exc}", function="readers.py::FilReader.read_block", input=inp,
                     required="ValueError" if not inrange else "data")
            continue
        if not inrange:
            if n == 0 and 0 <= start <= nsamp:
                continue  # empty request: left unconstrained (documented in DESIGN section 6, C02)
            rep.fail("read_block accepted an out-of-range request", function="readers.py::FilReader.read_block", input=inp,
                     required="ValueError")
            continue
        want = X[start:start + n].T
        got = np.asarray(blk.data)
        rep.check(got.shape == want.shape and np.array_equal(got, want), "read_block returned wrong samples",
                  function="readers.py::FilReader.read_block", input=inp, observed=got, required=want)


def sweep_impl(rep, tier, seed, only_nbits=None):
    rng = np.random.default_rng(seed)
    tmp = tempfile.mkdtemp(prefix="pvc_c02_")
    try:
        depths = [1, 2, 4, 8, 16, 32]
        for nbits in depths:
            if only_nbits and nbits not in only_nbits:
                continue
            nchans = 8 if nbits < 8 else 2
            isz = {16: 2, 32: 4}.get(nbits, 1)
            bps = nchans * nbits // 8
            nsamp = 7
            total = bps * nsamp
            if nbits == 32:
                data = rng.integers(0, 50, total // 4).astype("<f4").tobytes()
            else:
                data = rng.integers(0, 256, total, dtype=np.uint8).tobytes()
            layouts = [[], [bps * 3], [bps * 2, bps * 5], [3], [1, total - 1], [5, 6]]
            for splits in layouts:
                splits = [s for s in splits if 0 < s < total]
                d = os.path.join(tmp, f"b{nbits}_{'_'.join(map(str, splits)) or 'one'}")
                os.makedirs(d, exist_ok=True)
                names = write_stream(d, nchans, nbits, data, splits, pads=[0, 3, 7][: len(splits) + 1])
                f = 8 // nbits if nbits < 8 else 1
                # bounded-exhaustive short sequences on the tiny stream
                alphabet = [("seek0", 0), ("seek0", max(total - 1, 0)), ("seek0", total), ("seek1", -2), ("seek1", 3),
                            ("cread", f * isz), ("cread", 3 * f), ("cread", total * f), ("creadinto", 4),
                            ("creadinto", total + 3), ("seek0", splits[0] if splits else 1)]
                depth = 2 if tier == "quick" else 3
                for ops in itertools.product(alphabet, repeat=depth):
                    rep.case(("ops", nbits, tuple(splits), ops), dict(nbits=nbits, splits=splits, ops=list(ops)))
                    run_ops(rep, names, data, nbits, list(ops), "exhaustive")
                for _ in range(10 if tier == "quick" else 200):
                    ops = []
                    for _k in range(int(rng.integers(3, 12))):
                        kind = rng.choice(["seek0", "seek1", "cread", "creadinto"])
                        arg = int(rng.integers(-3, total + 4)) if kind.startswith("seek") else int(rng.integers(0, total + 2))
                        if kind == "cread":
                            arg = arg * f // isz
                        ops.append((str(kind), arg))
                    rep.case(("rand", nbits, tuple(splits), tuple(ops)))
                    run_ops(rep, names, data, nbits, ops, "random")
                aligned = all(s % bps == 0 for s in splits)
                if aligned or nbits <= 8:
                    read_block_checks(rep, names, data, nchans, nbits, rng, exhaustive=(tier != "quick" or not splits))
    finally:
        shutil.rmtree(tmp, ignore_errors=True)


def sweep(tier, seed):
    rep = Report(dict(files="1..3", depths=[1, 2, 4, 8, 16, 32], stream_samples=7, op_sequence_depth=2 if tier == "quick" else 3))
    sweep_impl(rep, tier, seed)
    return rep


def replay(payload):
    rep = Report(dict(mode="replay"))
    case = payload.get("case") or ""
    only = None
    for nb in (1, 2, 4, 8, 16, 32):
        if f"nbits={nb}" in case and f"nbits={nb}" + "0" not in case:
            only = [nb]
    sweep_impl(rep, "quick", int(payload.get("seed", 0) or 0), only)
    return rep


if __name__ == "__main__":
    main(sweep, replay)
