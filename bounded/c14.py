"""C14 bounded stand-in / replay: running filters, decimation, detrending and de-reddening against float64 definitions."""
import numpy as np
from common import Report, main

from sigpyproc.block import FilterbankBlock
from sigpyproc.core import kernels, stats
from sigpyproc.header import Header
from sigpyproc.timeseries import TimeSeries


def hdr(n, nchans=1):
    return Header(filename="x.tim", data_type="time series" if nchans == 1 else "filterbank", nchans=nchans, foff=-1.0,
                  fch1=1400.0, nbits=32, tsamp=1e-3, tstart=58000.0, nsamples=n)


def sym_index(k, n):
    """Index into a length-n series reflected symmetrically (edge sample repeated), period 2n."""
    m = k % (2 * n)
    return m if m < n else 2 * n - 1 - m


def window_ref(x, w, fn):
    """Window of width w centred on each sample: [i - w//2, i + (w-1)//2] for odd w, and for even w the window
    [i - w//2, i + w//2 - 1] (one more sample before than after), over the symmetric reflection."""
    n = len(x)
    out = np.empty(n, dtype=np.float64)
    for i in range(n):
        idx = [sym_index(i - w // 2 + j, n) for j in range(w)]
        out[i] = fn(x[idx].astype(np.float64))
    return out


def close(a, b, tol=2e-4):
    a = np.asarray(a, dtype=np.float64)
    b = np.asarray(b, dtype=np.float64)
    if a.shape != b.shape:
        return False
    scale = max(1.0, float(np.max(np.abs(b))) if b.size else 1.0)
    return bool(np.all(np.abs(a - b) <= tol * scale))


def sweep_impl(rep, tier, seed):
    rng = np.random.default_rng(seed)
    lengths = [1, 2, 3, 5, 8, 13, 32] if tier == "quick" else [1, 2, 3, 4, 5, 7, 8, 13, 32, 61, 100]
    # ---- running mean / median: every width, including widths exceeding the length
    for n in lengths:
        x = rng.normal(10, 3, n).astype(np.float32)
        widths = sorted(set([1, 2, 3, 4, 5, n - 1, n, n + 1, 2 * n, 2 * n + 1, 3 * n + 2]) - {0, -1})
        for w in widths:
            if w < 1:
                continue
            for method, fn in (("mean", np.mean), ("median", np.median)):
                rep.case(("running", n, w, method))
                inp = dict(n=n, window=w, method=method, x=x.tolist() if n <= 13 else None, seed=seed)
                try:
                    got = stats.running_filter(x, w, method=method)
                except Exception as exc:  # noqa: BLE001
                    rep.fail("running_filter raised for a valid width", function="core/stats.py::running_filter", input=inp,
                             observed=repr(exc))
                    continue
                rep.check(len(got) == n, "running filter output length differs from the input length",
                          function="core/stats.py::running_filter", input=inp, observed=len(got))
                if len(got) == n:
                    ref = window_ref(x, w, fn)
                    rep.check(close(got, ref), "running filter differs from the centred window over the symmetric reflection",
                              function="core/stats.py::running_filter", input=inp,
                              observed=dict(got=np.asarray(got, dtype=float).tolist()[:8], ref=ref.tolist()[:8]))
    # ---- 1-D decimation
    for n in lengths + [17, 64]:
        x = rng.normal(0, 5, n).astype(np.float32)
        for f in range(1, n + 1):
            for method, fn in (("mean", np.mean), ("median", np.median)):
                rep.case(("ds1", n, f, method))
                inp = dict(n=n, factor=f, method=method, seed=seed)
                got = stats.downsample_1d(x, f, method=method)
                g = n // f
                ref = np.array([fn(x[i * f:(i + 1) * f].astype(np.float64)) for i in range(g)])
                rep.check(len(got) == g and close(got, ref), "downsample_1d is not the mean/median of each full group",
                          function="core/stats.py::downsample_1d", input=inp)
            for method, fn in (("mean", np.mean), ("median", np.median)):
                ts = TimeSeries(x.copy(), hdr(n))
                d = ts.downsample(f, filter_method=method)
                ref = np.array([fn(x[i * f:(i + 1) * f].astype(np.float64)) for i in range(n // f)])
                rep.check(close(d.data, ref) and d.header.nsamples == n // f and abs(d.header.tsamp - 1e-3 * f) < 1e-12,
                          "TimeSeries.downsample data/header", function="timeseries.py::TimeSeries.downsample",
                          input=dict(n=n, factor=f, method=method, seed=seed))
    # ---- 2-D and flattened decimation
    shapes = [(1, 1), (2, 3), (4, 8), (5, 7), (8, 16)] if tier == "quick" else [(1, 1), (2, 3), (3, 2), (4, 8), (5, 7), (8, 16), (9, 31)]
    for (d1, d2) in shapes:
        a = rng.normal(0, 4, (d1, d2)).astype(np.float32)
        for f1 in range(1, d1 + 1):
            for f2 in range(1, d2 + 1):
                for method, fn in (("mean", np.mean), ("median", np.median)):
                    rep.case(("ds2", d1, d2, f1, f2, method))
                    inp = dict(shape=[d1, d2], factors=[f1, f2], method=method, seed=seed)
                    ref = np.array([[fn(a[i * f1:(i + 1) * f1, j * f2:(j + 1) * f2].astype(np.float64)) for j in range(d2 // f2)]
                                    for i in range(d1 // f1)]).reshape(d1 // f1, d2 // f2)
                    got = stats.downsample_2d(a, (f1, f2), method)
                    rep.check(got.shape == ref.shape and close(got, ref), "downsample_2d is not the mean/median of each full tile",
                              function="core/stats.py::downsample_2d", input=inp)
                    # the same values in the other memory layouts a block can arrive in: channel-major (Fortran order, what
                    # read_block's transposed reads produce) and a strided view - the result is defined on indices, not layout
                    for lname, av in (("fortran", np.asfortranarray(a)), ("strided", np.repeat(a, 2, axis=1)[:, ::2])):
                        gl = stats.downsample_2d(av, (f1, f2), method)
                        rep.check(gl.shape == ref.shape and close(gl, ref),
                                  f"downsample_2d is not the mean/median of each full tile ({lname} memory layout)",
                                  function="core/stats.py::downsample_2d", input=dict(inp, layout=lname))
                    gotf = stats.downsample_2d_flat(a.ravel().copy(), f1, f2, d1, d2, method)
                    rep.check(gotf.shape == (ref.size,) and close(gotf, ref.ravel()),
                              "downsample_2d_flat is not the mean/median of each full tile (row-major)",
                              function="core/kernels.py::downsample_2d_mean_flat" if method == "mean"
                              else "core/stats.py::downsample_2d_flat", input=inp)
                for method, fn in (("mean", np.mean), ("median", np.median)):
                    blk = FilterbankBlock(a.copy(), hdr(d2, d1))
                    out = blk.downsample(ffactor=f1, tfactor=f2, filter_method=method)
                    ref = np.array([[fn(a[i * f1:(i + 1) * f1, j * f2:(j + 1) * f2].astype(np.float64)) for j in range(d2 // f2)]
                                    for i in range(d1 // f1)]).reshape(d1 // f1, d2 // f2)
                    rep.check(out.data.shape == ref.shape and close(out.data, ref) and out.header.nchans == d1 // f1
                              and out.header.nsamples == d2 // f2, "FilterbankBlock.downsample data/header",
                              function="block.py::FilterbankBlock.downsample", input=dict(shape=[d1, d2], factors=[f1, f2], method=method, seed=seed))
                    outf = FilterbankBlock(np.asfortranarray(a), hdr(d2, d1)).downsample(ffactor=f1, tfactor=f2, filter_method=method)
                    rep.check(outf.data.shape == ref.shape and close(outf.data, ref),
                              "FilterbankBlock.downsample of a channel-major (transposed) block differs from the tile means/medians",
                              function="block.py::FilterbankBlock.downsample",
                              input=dict(shape=[d1, d2], factors=[f1, f2], method=method, seed=seed, layout="fortran"))
    # ---- linear detrending: least-squares residual
    for n in [1, 2, 3, 5, 16, 101]:
        x = (rng.normal(0, 1, n) + 0.3 * np.arange(n) - 7).astype(np.float32)
        rep.case(("detrend", n))
        got = kernels.detrend_1d(x)
        if n == 1:
            ref = np.zeros(1)
        else:
            t = np.arange(n, dtype=np.float64)
            A = np.vstack([t, np.ones(n)]).T
            coef, *_ = np.linalg.lstsq(A, x.astype(np.float64), rcond=None)
            ref = x.astype(np.float64) - A @ coef
        rep.check(close(got, ref, 1e-3), "detrend_1d is not the least-squares residual", function="core/kernels.py::detrend_1d",
                  input=dict(n=n, seed=seed))
    # ---- de-reddening: input minus its running filter
    for n in [8, 33, 100]:
        x = (rng.normal(0, 1, n) + np.linspace(0, 5, n)).astype(np.float32)
        ts = TimeSeries(x.copy(), hdr(n))
        for wbins in (1, 3, 4, 9, n + 3):
            for method, fn in (("mean", np.mean), ("median", np.median)):
                rep.case(("deredden", n, wbins, method))
                out = ts.deredden(method=method, window=wbins * 1e-3)
                ref = x.astype(np.float64) - window_ref(x, wbins, fn)
                rep.check(len(out.data) == n and close(out.data, ref), "deredden is not the input minus its running filter",
                          function="timeseries.py::TimeSeries.deredden", input=dict(n=n, window_bins=wbins, method=method, seed=seed))


def sweep(tier, seed):
    rep = Report(dict(lengths="1..32 (quick) / 1..100 (thorough)", widths="1..3n+2", factors="all 1..n", shapes="up to 8x16 / 9x31"))
    sweep_impl(rep, tier, seed)
    return rep


def replay(payload):
    rep = Report(dict(mode="replay"))
    sweep_impl(rep, "quick", int(payload.get("seed", 0) or 0))
    return rep


if __name__ == "__main__":
    main(sweep, replay)
