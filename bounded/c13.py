"""C13 bounded stand-in / replay: matched-filter responses against direct inner products (float64), the reported
S/N / peak / template as their arg-max, invariances, and recovery of a noiseless boxcar."""
import numpy as np
from common import Report, main

from sigpyproc.core import kernels
from sigpyproc.core.filters import MatchedFilter
from sigpyproc.core.stats import estimate_zscore


def direct_responses(z, temps, ng):
    """resp[k, t] = <z_ext, template k normalised (zero mean, unit norm over the transform length) with its reference
    bin at t>, where z_ext is the standardised series extended periodically to the transform length ng."""
    n = len(z)
    zext = np.array([z[i % n] for i in range(ng)], dtype=np.float64)
    out = np.zeros((len(temps), n))
    for k, (kern, ref) in enumerate(temps):
        pad = np.zeros(ng)
        pad[: len(kern)] = kern
        pad = pad - pad.mean()
        nrm = np.sqrt((pad ** 2).sum())
        if nrm > 0:
            pad = pad / nrm
        for t in range(n):
            out[k, t] = float(np.dot(zext, np.roll(pad, t - ref)))
    return out


def sweep_impl(rep, tier, seed):
    rng = np.random.default_rng(seed)
    lengths = [15, 16, 25, 27, 40, 45, 64, 75, 81, 100] if tier == "quick" else list(range(12, 140, 3)) + [125, 135, 256]
    for n in lengths:
        for kind, nbmax in (("boxcar", 6), ("gaussian", 4)):
            x = rng.normal(5.0, 2.0, n).astype(np.float32)
            x[n // 3: n // 3 + 3] += 9.0
            inp = dict(n=n, kind=kind, nbins_max=nbmax, seed=seed)
            rep.case(("mf", n, kind))
            try:
                mf = MatchedFilter(x, temp_kind=kind, nbins_max=nbmax)
            except ValueError as exc:
                if "is larger than the data size" in str(exc):
                    continue  # documented rejection: a template of the bank does not fit the series (not a valid request)
                rep.fail("MatchedFilter raised for a valid series", function="core/kernels.py::convolve_templates", input=inp, observed=repr(exc)[:160])
                continue
            except Exception as exc:  # noqa: BLE001
                rep.fail("MatchedFilter raised for a valid series", function="core/kernels.py::convolve_templates", input=inp, observed=repr(exc)[:160])
                continue
            ng = int(kernels.nb_fft_good_size(n, True))
            z = np.asarray(mf.zscores.data, dtype=np.float64)
            temps = [(np.asarray(t.data, dtype=np.float64), int(t.ref_bin)) for t in mf.temp_bank]
            ref = direct_responses(z, temps, ng)
            convs = np.asarray(mf.convs, dtype=np.float64)
            tol = 2e-4 * max(1.0, float(np.abs(ref).max()))
            rep.check(convs.shape == ref.shape and bool(np.all(np.abs(convs - ref) <= tol)),
                      "matched-filter response differs from the inner product with the normalised template placed at t",
                      function="core/kernels.py::convolve_templates", input=inp,
                      observed=dict(shape=list(convs.shape), maxdiff=float(np.abs(convs - ref).max()) if convs.shape == ref.shape else None))
            if convs.shape == ref.shape:
                k, t = np.unravel_index(np.argmax(convs), convs.shape)
                rep.check(abs(float(mf.snr) - float(convs.max())) <= 1e-6 * max(1.0, abs(float(convs.max()))) and mf.peak_bin == int(t)
                          and mf.best_temp is mf.temp_bank[int(k)],
                          "reported S/N, peak bin and best template are not the maximum response and its location",
                          function="core/filters.py::MatchedFilter._compute", input=inp, observed=[float(mf.snr), mf.peak_bin], required=[float(convs.max()), int(t)])
                # invariance under x -> a*x + b (a > 0)
                for a, b in ((1.0, 100.0), (3.0, 0.0), (0.5, -7.0)):
                    mf2 = MatchedFilter((a * x + b).astype(np.float32), temp_kind=kind, nbins_max=nbmax)
                    rep.check(abs(float(mf2.snr) - float(mf.snr)) <= 2e-3 * max(1.0, abs(float(mf.snr))) and mf2.peak_bin == mf.peak_bin
                              and mf2.best_temp.width == mf.best_temp.width,
                              "result changes when a constant is added or the data are scaled by a positive factor",
                              function="core/filters.py::MatchedFilter", input=dict(inp, a=a, b=b), observed=[float(mf2.snr), mf2.peak_bin],
                              required=[float(mf.snr), mf.peak_bin])
        # a negative dip stronger than the pulse: the report is the MAXIMUM response, not the largest magnitude
        if n >= 40:
            y = rng.normal(0.0, 1.0, n).astype(np.float32)
            y[n // 4: n // 4 + 3] += 6.0
            y[(3 * n) // 4: (3 * n) // 4 + 5] -= 14.0
            rep.case(("dip", n))
            try:
                mf = MatchedFilter(y, temp_kind="boxcar", nbins_max=6)
                convs = np.asarray(mf.convs, dtype=np.float64)
                k, t = np.unravel_index(np.argmax(convs), convs.shape)
                rep.check(abs(float(mf.snr) - float(convs.max())) <= 1e-6 * max(1.0, abs(float(convs.max()))) and mf.peak_bin == int(t)
                          and mf.best_temp is mf.temp_bank[int(k)],
                          "reported S/N, peak bin and best template are not the maximum response and its location",
                          function="core/filters.py::MatchedFilter._compute", input=dict(n=n, kind="boxcar", dip=True, seed=seed),
                          observed=[float(mf.snr), mf.peak_bin], required=[float(convs.max()), int(t)])
            except Exception as exc:  # noqa: BLE001
                rep.fail("MatchedFilter raised for a valid series", function="core/kernels.py::convolve_templates", input=dict(n=n, dip=True), observed=repr(exc)[:160])
        # noiseless boxcar of a width present in the bank is recovered at its start bin with that width
        for width in (1, 2, 3, 4, 6):
            if width * 4 > n:
                continue
            start = n // 2
            y = np.zeros(n, dtype=np.float32)
            y[start:start + width] = 1.0
            rep.case(("box", n, width))
            try:
                mf = MatchedFilter(y, loc_method="norm", scale_method="norm", temp_kind="boxcar", nbins_max=6)
            except Exception as exc:  # noqa: BLE001
                rep.fail("MatchedFilter raised for a noiseless boxcar", function="core/kernels.py::convolve_templates", input=dict(n=n, width=width),
                         observed=repr(exc)[:160])
                continue
            widths = [int(t.width) for t in mf.temp_bank]
            if width in widths:
                rep.check(mf.peak_bin == start and int(mf.best_temp.width) == width, "noiseless boxcar not recovered at its start bin with its width",
                          function="core/filters.py::MatchedFilter", input=dict(n=n, width=width, start=start, bank=widths),
                          observed=[mf.peak_bin, int(mf.best_temp.width)], required=[start, width])


def sweep(tier, seed):
    rep = Report(dict(lengths="10 lengths 15..100 (quick) / 12..256 (thorough)", templates=["boxcar<=6", "gaussian<=4"], boxcars=[1, 2, 3, 4, 6]))
    sweep_impl(rep, tier, seed)
    return rep


def replay(payload):
    rep = Report(dict(mode="replay"))
    sweep_impl(rep, "quick", int(payload.get("seed", 0) or 0))
    return rep


if __name__ == "__main__":
    main(sweep, replay)
