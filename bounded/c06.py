"""C06 bounded stand-in / replay: streaming reductions on real files vs in-memory definitions."""
import os
import shutil
import tempfile

import numpy as np
from common import Report, main, unpack_spec, write_stream

from sigpyproc.readers import FilReader


def mk(tmp, nbits, nchans, N, rng, splits_at=None, tag="a"):
    bps = nchans * nbits // 8
    total = bps * N
    if nbits == 32:
        data = rng.integers(0, 40, total // 4).astype("<f4").tobytes()
    else:
        data = rng.integers(0, 256, total, dtype=np.uint8).tobytes()
    d = os.path.join(tmp, f"f{nbits}_{tag}")
    os.makedirs(d, exist_ok=True)
    splits = [bps * s for s in (splits_at or [])]
    names = write_stream(d, nchans, nbits, data, splits, tsamp=0.001, fch1=1500.0, foff=-10.0)
    X = unpack_spec(data, nbits).reshape(N, nchans).astype(np.float64)
    return names, X


def check_all(rep, fil, X, nbits, gulp, start, nsamps, dm, tag):
    N, nchans = X.shape
    n = (N - start) if nsamps is None else nsamps
    sub = X[start:start + n]
    inp = dict(nbits=nbits, nchans=nchans, nsamples=N, gulp=gulp, start=start, nsamps=nsamps, dm=dm, files=tag)
    kw = dict(gulp=gulp, start=start, nsamps=nsamps, quiet=True)

    def run(name, fn, want, fnname):
        rep.case((name, nbits, tag, gulp, start, nsamps, dm))
        try:
            got = np.asarray(fn(), dtype=np.float64)
        except Exception as exc:  # noqa: BLE001
            rep.fail(f"{name} raised {type(exc).__name__}", function=f"base.py::Filterbank.{fnname}", input=inp, observed=str(exc))
            return
        ok = got.shape == want.shape and np.allclose(got, want, rtol=1e-5, atol=1e-4)
        rep.check(ok, f"{name} differs from its definition on the selected samples",
                  function=f"base.py::Filterbank.{fnname}", input=inp, observed=got, required=want)

    run("collapse", lambda: fil.collapse(**kw).data, sub.sum(axis=1), "collapse")
    run("bandpass", lambda: fil.bandpass(**kw).data, sub.mean(axis=0), "bandpass")
    ch = (start + gulp) % nchans
    run("read_chan", lambda: fil.read_chan(ch, **kw).data, sub[:, ch], "read_chan")
    delays = fil.header.get_dmdelays(dm)
    md = int(delays.max())
    if 0 <= md < n and delays.min() >= 0:
        want = np.array([sum(sub[t + delays[c], c] for c in range(nchans)) for t in range(n - md)], dtype=np.float64)
        run("dedisperse", lambda: fil.dedisperse(dm, **kw).data, want.reshape(n - md), "dedisperse")
    # per-channel statistics
    rep.case(("stats", nbits, tag, gulp, start, nsamps))
    try:
        fil.compute_stats(**kw)
        st = fil.chan_stats
        got = dict(mean=st.mean, var=st.var, maxima=st.maxima, minima=st.minima)
        want = dict(mean=sub.mean(axis=0), var=sub.var(axis=0), maxima=sub.max(axis=0), minima=sub.min(axis=0))
        for k in got:
            rep.check(np.allclose(np.asarray(got[k], dtype=np.float64), want[k], rtol=1e-3, atol=1e-2),
                      f"compute_stats {k} differs from the two-pass value on the selected samples",
                      function="base.py::Filterbank.compute_stats", input=inp, observed=got[k], required=want[k])
    except Exception as exc:  # noqa: BLE001
        rep.fail(f"compute_stats raised {type(exc).__name__}", function="base.py::Filterbank.compute_stats", input=inp,
                 observed=str(exc))


def sweep_impl(rep, tier, seed, only=None):
    rng = np.random.default_rng(seed)
    tmp = tempfile.mkdtemp(prefix="pvc_c06_")
    try:
        N = 24
        for nbits in (1, 2, 4, 8, 32):
            nchans = 8
            for tag, splits in (("1 file", None), ("3 files", [7, 15])):
                names, X = mk(tmp, nbits, nchans, N, rng, splits, tag.replace(" ", ""))
                fil = FilReader(names, check_contiguity=False)
                tsamp = fil.header.tsamp
                # DMs giving max delays 0, small, and larger than half a gulp
                dms = [0.0]
                for target in (2, 5):
                    lo, hi = 0.0, 5000.0
                    for _ in range(40):
                        mid = (lo + hi) / 2
                        if int(fil.header.get_dmdelays(mid).max()) < target:
                            lo = mid
                        else:
                            hi = mid
                    dms.append(hi)
                gulps = [1, 3, 5, 8, 24, 40] if tier == "quick" else [1, 2, 3, 4, 5, 7, 8, 11, 12, 23, 24, 25, 40]
                ranges = [(0, None), (0, 24), (0, 10), (5, None), (5, 13), (23, 1), (7, 16)]
                if tier == "thorough":
                    ranges += [(s, n) for s in range(0, N, 3) for n in range(1, N - s + 1, 4)]
                for gulp in gulps:
                    for (start, nsamps) in ranges:
                        for dm in (dms if gulp in (3, 8, 40) or tier == "thorough" else dms[:2]):
                            check_all(rep, fil, X, nbits, gulp, start, nsamps, dm, tag)
    finally:
        shutil.rmtree(tmp, ignore_errors=True)


def sweep(tier, seed):
    rep = Report(dict(samples=24, nchans=8, depths=[1, 2, 4, 8, 32], gulps="1..40", files=[1, 3]))
    sweep_impl(rep, tier, seed)
    return rep


def replay(payload):
    rep = Report(dict(mode="replay"))
    sweep_impl(rep, "quick", int(payload.get("seed", 0) or 0))
    name = payload.get("obligation") or ""
    for fn in ("collapse", "bandpass", "read_chan", "dedisperse", "compute_stats"):
        if "Filterbank." + fn in name:
            rep.failures = [f for f in rep.failures if fn in (f.get("function") or "")] 
    return rep


if __name__ == "__main__":
    main(sweep, replay)
