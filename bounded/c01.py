"""C01 bounded stand-in / replay: FilReader.read_plan on real multi-file streams, all small plans."""
import itertools
import os
import shutil
import tempfile

import numpy as np
from common import Report, main, unpack_spec, write_stream

from sigpyproc.readers import FilReader


def check_plan(rep, fil, X, nchans, nbits, gulp, start, nsamps, skipback, tag):
    N = X.shape[0]
    n_eff = (N - start) if nsamps is None else nsamps
    g = min(n_eff, gulp)
    s = abs(skipback)
    inp = dict(nbits=nbits, nchans=nchans, nsamples=N, gulp=gulp, start=start, nsamps=nsamps, skipback=skipback, files=tag)
    rep.case(("plan", nbits, tag, gulp, start, nsamps, skipback))
    blocks = []
    try:
        for cnt, ii, data in fil.read_plan(gulp=gulp, start=start, nsamps=nsamps, skipback=skipback, quiet=True):
            blocks.append((int(cnt), int(ii), np.array(data, copy=True)))
    except ValueError as exc:
        if start + n_eff > N and not blocks:
            return  # a range that leaves the data: rejected before anything was yielded, as required
        if blocks:
            rep.fail("ValueError after a block was yielded", function="readers.py::FilReader.read_plan", input=inp,
                     observed=f"{len(blocks)} blocks then {exc}")
        elif s < g:
            rep.fail("an honourable plan (skipback < effective gulp) was rejected", function="readers.py::FilReader.read_plan",
                     input=inp, observed=str(exc))
        return
    except Exception as exc:  # noqa: BLE001
        rep.fail(f"read_plan raised {type(exc).__name__}", function="readers.py::FilReader.read_plan", input=inp, observed=str(exc))
        return
    if start + n_eff > N:
        rep.fail("a plan whose range leaves the data was accepted", function="readers.py::FilReader.read_plan", input=inp,
                 required="ValueError before the first block")
        return
    if s >= g:
        rep.fail("a plan with skipback >= effective gulp was accepted", function="readers.py::FilReader.read_plan", input=inp,
                 required="ValueError")
        return
    off = 0
    for k, (cnt, ii, data) in enumerate(blocks):
        ok = (ii == k and data.size == cnt * nchans and 1 <= cnt <= g and cnt <= gulp and (k == 0 or cnt >= s)
              and off + cnt <= n_eff)
        if not ok:
            rep.fail("block shape/index/size clause", function="readers.py::FilReader.read_plan", input=inp,
                     observed=dict(k=k, cnt=cnt, ii=ii, size=int(data.size), off=off))
            return
        want = X[start + off:start + off + cnt].ravel()
        got = data.view(np.uint8) if nbits == 32 else data
        wnt = want.view(np.uint8) if nbits == 32 else want
        if not np.array_equal(got, wnt):
            rep.fail("block contents differ from the unpacked samples of the stream", function="readers.py::FilReader.read_plan",
                     input=inp, observed=data, required=want)
            return
        off = off + cnt - s
    if not blocks or off + s != n_eff:
        rep.fail("blocks do not cover [start, start+nsamps) exactly once", function="readers.py::FilReader.read_plan", input=inp,
                 observed=dict(nblocks=len(blocks), end=off + s), required=n_eff)


def sweep_impl(rep, tier, seed, only_nbits=None):
    rng = np.random.default_rng(seed)
    tmp = tempfile.mkdtemp(prefix="pvc_c01_")
    try:
        for nbits in (1, 2, 4, 8, 16, 32):
            if only_nbits and nbits not in only_nbits:
                continue
            nchans = 8 if nbits < 8 else 3
            bps = nchans * nbits // 8
            N = 9 if tier == "quick" else 12
            total = bps * N
            if nbits == 32:
                data = rng.integers(0, 50, total // 4).astype("<f4").tobytes()
            else:
                data = rng.integers(0, 256, total, dtype=np.uint8).tobytes()
            X = unpack_spec(data, nbits).reshape(N, nchans)
            layouts = [[], [bps * 4], [bps * 2, bps * 7], [bps * 3 + max(bps // 2, 1)] if bps > 1 else [5]]
            if tier == "quick":
                layouts = layouts[:3] if nbits not in (2, 32) else layouts
            for li, splits in enumerate(layouts):
                splits = sorted(set(s for s in splits if 0 < s < total))
                d = os.path.join(tmp, f"b{nbits}_{li}")
                os.makedirs(d, exist_ok=True)
                names = write_stream(d, nchans, nbits, data, splits, pads=[0, 5, 2])
                fil = FilReader(names, check_contiguity=False)
                if fil.header.nsamples != N:
                    rep.fail("header sample count differs from the joined data", function="sigproc.py::parse_header_multi",
                             input=dict(nbits=nbits, splits=splits), observed=fil.header.nsamples, required=N)
                    continue
                gulps = [1, 2, 3, 4, 5, N - 1, N, N + 3]
                for gulp in gulps:
                    for start in range(0, N):
                        for nsamps in [None] + list(range(1, N - start + 1)):
                            sk = range(0, 7) if tier == "thorough" else (0, 1, 2, 3, 5)
                            for skipback in sk:
                                if tier == "quick" and (start + (nsamps or 0) + gulp + skipback) % 3 and li:
                                    continue  # thin the non-first layouts in the quick tier
                                check_plan(rep, fil, X, nchans, nbits, gulp, start, nsamps, skipback, f"{len(names)} files {splits}")
                check_plan(rep, fil, X, nchans, nbits, 4, 0, None, -2, "negative skipback")
                # plans the reader cannot honour because the range runs past the end of the data: rejected up front,
                # also when the overrun only shows in a later block
                for gulp, start, nsamps, skipback in ((4, 0, N + 6, 0), (3, 2, N, 1), (N, 0, N + 1, 0), (2, N - 1, 3, 0),
                                                      (4, 1, 2 * N, 2)):
                    check_plan(rep, fil, X, nchans, nbits, gulp, start, nsamps, skipback, f"overrun, {len(names)} files")
    finally:
        shutil.rmtree(tmp, ignore_errors=True)


def sweep(tier, seed):
    rep = Report(dict(depths=[1, 2, 4, 8, 16, 32], samples=9 if tier == "quick" else 12, files="1..3",
                      gulp="1..N+3", start_nsamps="all in-range", skipback="0..5(6)"))
    sweep_impl(rep, tier, seed)
    return rep


def replay(payload):
    rep = Report(dict(mode="replay"))
    case = payload.get("case") or ""
    only = None
    for nb in (16, 32, 1, 2, 4, 8):
        if f"nbits={nb}," in case + ",":
            only = [nb]
            break
    sweep_impl(rep, "quick", int(payload.get("seed", 0) or 0), only)
    return rep


if __name__ == "__main__":
    main(sweep, replay)
