"""SMT layer: term helpers, witness-encoded div/mod, polynomial normalisation, back ends."""
from __future__ import annotations

import os
import subprocess
import tempfile
import time

import z3

_ctr = [0]


def fresh(prefix: str, sort=None):
    _ctr[0] += 1
    name = f"{prefix}!{_ctr[0]}"
    if sort is None or sort == z3.IntSort():
        return z3.Int(name)
    return z3.Const(name, sort)


def reset_names():
    _ctr[0] = 0


def som(t):
    """Sum-of-monomials normal form for integer/real index terms."""
    try:
        return z3.simplify(t, som=True, mul_to_power=False, arith_lhs=False)
    except z3.Z3Exception:
        return t


def _monomials(t):
    """sum-of-monomials view of an Int term: [(coeff, [factors])] or None."""
    if z3.is_add(t):
        out = []
        for c in t.children():
            m = _monomials(c)
            if m is None:
                return None
            out.extend(m)
        return out
    if z3.is_int_value(t):
        return [(t.as_long(), [])]
    if z3.is_mul(t):
        coeff, fs = 1, []
        for c in t.children():
            if z3.is_int_value(c):
                coeff *= c.as_long()
            elif z3.is_mul(c) or z3.is_add(c):
                return None
            else:
                fs.append(c)
        return [(coeff, fs)]
    if z3.is_app_of(t, z3.Z3_OP_UMINUS):
        m = _monomials(t.arg(0))
        return None if m is None else [(-c, f) for c, f in m]
    return [(1, [t])]


def factor_out(x, y):
    """If every monomial of x contains the atom y, return x / y as a term, else None."""
    if z3.is_int_value(y) or z3.is_add(y) or z3.is_mul(y):
        return None
    ms = _monomials(x)
    if not ms:
        return None
    total = None
    for coeff, fs in ms:
        idx = next((i for i, f in enumerate(fs) if f.eq(y)), None)
        if idx is None:
            return None
        rest = fs[:idx] + fs[idx + 1:]
        term = z3.IntVal(coeff)
        for f in rest:
            term = term * f
        total = term if total is None else total + term
    return som(total)


def as_int_expr(x):
    """If the Real term x is built from integer terms by +, -, * only, return the same expression over Int."""
    if x.sort() == z3.IntSort():
        return x
    if z3.is_app_of(x, z3.Z3_OP_TO_REAL):
        return x.arg(0)
    if z3.is_rational_value(x):
        if x.denominator_as_long() == 1:
            return z3.IntVal(x.numerator_as_long())
        return None
    if z3.is_add(x) or z3.is_mul(x) or z3.is_sub(x):
        ch = [as_int_expr(c) for c in x.children()]
        if any(c is None for c in ch):
            return None
        if z3.is_add(x):
            return z3.Sum(ch)
        if z3.is_sub(x):
            r = ch[0]
            for c in ch[1:]:
                r = r - c
            return r
        r = ch[0]
        for c in ch[1:]:
            r = r * c
        return r
    if z3.is_app_of(x, z3.Z3_OP_UMINUS):
        c = as_int_expr(x.arg(0))
        return None if c is None else -c
    if z3.is_app_of(x, z3.Z3_OP_ITE):
        a, b = as_int_expr(x.arg(1)), as_int_expr(x.arg(2))
        return None if a is None or b is None else z3.If(x.arg(0), a, b)
    return None


def simp(t):
    try:
        return z3.simplify(t)
    except z3.Z3Exception:
        return t


def is_conc_int(t):
    t = simp(t)
    return z3.is_int_value(t)


def conc_int(t):
    t = simp(t)
    if z3.is_int_value(t):
        return t.as_long()
    return None


def conc_bool(t):
    t = simp(t)
    if z3.is_true(t):
        return True
    if z3.is_false(t):
        return False
    return None


def conc_real(t):
    t = simp(t)
    if z3.is_rational_value(t):
        from fractions import Fraction
        return Fraction(t.numerator_as_long(), t.denominator_as_long())
    if z3.is_int_value(t):
        from fractions import Fraction
        return Fraction(t.as_long())
    return None


# ---------------------------------------------------------------------------------- solving
class Result:
    def __init__(self, status, solver, time_s, model=None, reason=""):
        self.status = status  # 'proved' | 'refuted' | 'unknown'
        self.solver = solver
        self.time_s = time_s
        self.model = model
        self.reason = reason


# Side queries made DURING symbolic execution (path feasibility, entailment used to simplify lengths and views) must
# not depend on wall-clock time: if they did, the shape of the generated formulas - and then the verdicts - would change
# with machine load.  While RLIMIT is set every solver call is bounded by z3's deterministic resource counter instead
# (about 5e6 units per second on this machine) and only backstopped by a generous timeout.
RLIMIT = None


def _tactic_solver(timeout_ms):
    s = z3.Solver()
    if RLIMIT:
        s.set("rlimit", RLIMIT)
        s.set("timeout", max(timeout_ms, 20000))
    else:
        s.set("timeout", timeout_ms)
    return s


class side_query:
    """with smt.side_query(): ...  - deterministic resource bound for everything inside"""

    def __init__(self, rlimit=1500000):
        self.rlimit = rlimit

    def __enter__(self):
        global RLIMIT
        self.saved = RLIMIT
        RLIMIT = self.rlimit

    def __exit__(self, *exc):
        global RLIMIT
        RLIMIT = self.saved
        return False


def skolemize(goal):
    """Strip positive universal quantifiers (through Implies consequents / And): validity is preserved."""
    if z3.is_quantifier(goal) and goal.is_forall():
        n = goal.num_vars()
        consts = [fresh("sk_" + goal.var_name(i).split("!")[0], goal.var_sort(i)) for i in range(n)]
        body = z3.substitute_vars(goal.body(), *reversed(consts))
        return skolemize(body)
    if z3.is_implies(goal):
        return z3.Implies(goal.arg(0), skolemize(goal.arg(1)))
    if z3.is_and(goal):
        return z3.And([skolemize(c) for c in goal.children()])
    return goal


def _products(t, acc, seen):
    if t.get_id() in seen:
        return
    seen.add(t.get_id())
    if z3.is_quantifier(t):
        return
    if z3.is_mul(t) and t.sort() == z3.IntSort():
        fs = [c for c in t.children() if not z3.is_int_value(c)]
        if len(fs) >= 2:
            acc[t.get_id()] = fs
    for c in t.children():
        _products(c, acc, seen)


def nl_hints(formulas, limit=60):
    """Valid non-linear integer facts (product monotonicity) for products sharing a factor."""
    acc, seen = {}, set()
    for f in formulas:
        _products(f, acc, seen)
    items = []  # (common factor n, cofactor a)
    for fs in acc.values():
        for i, n in enumerate(fs):
            rest = fs[:i] + fs[i + 1:]
            a = rest[0]
            for r in rest[1:]:
                a = a * r
            items.append((n, a))
    hints = []
    for i in range(len(items)):
        n, a = items[i]
        hints.append(z3.Implies(z3.And(n >= 0, a >= 0), n * a >= 0))
        for j in range(i + 1, len(items)):
            m, b = items[j]
            if not n.eq(m) or a.eq(b):
                continue
            hints.append(z3.Implies(n >= 0, z3.And(z3.Implies(a <= b, n * a <= n * b),
                                                   z3.Implies(a < b, n * a + n <= n * b),
                                                   z3.Implies(b < a, n * b + n <= n * a))))
            if len(hints) > limit:
                return hints
    return hints


MUL = z3.Function("mul", z3.IntSort(), z3.IntSort(), z3.IntSort())


def abstract_nl(t, cache):
    """Replace non-linear integer products by the uninterpreted mul(a,b) (an over-approximation)."""
    k = t.get_id()
    if k in cache:
        return cache[k]
    if z3.is_quantifier(t):
        n = t.num_vars()
        cs = [z3.Const(t.var_name(i), t.var_sort(i)) for i in range(n)]
        b2 = z3.substitute_vars(abstract_nl(t.body(), cache), *reversed(cs))
        if t.is_forall():
            r = z3.ForAll(cs, b2)
        elif t.is_exists():
            r = z3.Exists(cs, b2)
        else:
            r = z3.Lambda(cs, b2)
        cache[k] = r
        return r
    if z3.is_var(t) or t.num_args() == 0:
        cache[k] = t
        return t
    ch = [abstract_nl(c, cache) for c in t.children()]
    if z3.is_mul(t) and t.sort() == z3.IntSort():
        consts = [c for c in ch if z3.is_int_value(c)]
        fs = [c for c in ch if not z3.is_int_value(c)]
        if len(fs) >= 2:
            r = fs[0]
            for f in fs[1:]:
                r = MUL(r, f)
            for c in consts:
                r = c * r
            cache[k] = r
            return r
    r = t.decl()(*ch)
    cache[k] = r
    return r


def _mul_axioms():
    a, b, n = z3.Ints("a_ b_ n_")
    return [
        z3.ForAll([a, b], MUL(a, b) == MUL(b, a), patterns=[MUL(a, b)]),
        z3.ForAll([n, a, b], z3.Implies(z3.And(n >= 0, a < b), MUL(n, a) + n <= MUL(n, b)),
                  patterns=[z3.MultiPattern(MUL(n, a), MUL(n, b))]),
        z3.ForAll([n, a], z3.And(z3.Implies(z3.And(n >= 0, a >= 0), MUL(n, a) >= 0),
                                 z3.Implies(a == 0, MUL(n, a) == 0), z3.Implies(a == 1, MUL(n, a) == n),
                                 z3.Implies(z3.And(n >= 0, a >= 1), MUL(n, a) >= n),
                                 z3.Implies(z3.And(n >= 0, a <= -1), MUL(n, a) <= -n),
                                 ), patterns=[MUL(n, a)]),
    ]


def _mul_apps(t, acc, seen):
    if t.get_id() in seen or z3.is_quantifier(t):
        return
    seen.add(t.get_id())
    if z3.is_app(t) and t.decl().eq(MUL):
        acc.append(t)
    for c in t.children():
        _mul_apps(c, acc, seen)


def _ground_mul_hints(formulas, limit=240):
    """Ground instances of valid laws of *: re-association of three-factor products and
    mul(n,a) +/- mul(n,b) == mul(n, a +/- b) for products sharing a factor."""
    apps, seen = [], set()
    for f in formulas:
        _mul_apps(f, apps, seen)
    out = []
    ids = {t.get_id() for t in apps}

    def add_app(t):
        if t.get_id() not in ids:
            ids.add(t.get_id())
            apps.append(t)

    def is_mul_app(t):
        return z3.is_app(t) and t.decl().eq(MUL)
    for t in list(apps):
        for x, y in ((t.arg(0), t.arg(1)), (t.arg(1), t.arg(0))):
            if is_mul_app(x):  # (a*b)*y == a*(b*y) == b*(a*y)
                a_, b_ = x.arg(0), x.arg(1)
                for v in (MUL(a_, MUL(b_, y)), MUL(b_, MUL(a_, y))):
                    out.append(t == v)
                    add_app(v)
                    add_app(v.arg(1))
    items = []
    for t in apps:
        x, y = t.arg(0), t.arg(1)
        items.append((x, y, t))
        items.append((y, x, t))
    for i in range(len(items)):
        n, a, ta = items[i]
        for j in range(i + 1, len(items)):
            m, b, tb = items[j]
            if not n.eq(m) or ta.eq(tb):
                continue
            out.append(ta + tb == MUL(n, z3.simplify(a + b)))
            out.append(ta - tb == MUL(n, z3.simplify(a - b)))
            if len(out) >= limit:
                return out
    return out


def _skolem_consts(goal, acc, seen):
    if goal.get_id() in seen or z3.is_quantifier(goal):
        return
    seen.add(goal.get_id())
    if z3.is_const(goal) and goal.decl().kind() == z3.Z3_OP_UNINTERPRETED and goal.sort() == z3.IntSort() \
            and str(goal).startswith("sk_"):
        acc.append(goal)
    for c in goal.children():
        _skolem_consts(c, acc, seen)


def _instances(f, consts, out, depth=0):
    """Instances of positive universal quantifiers of premise f over the goal's skolem constants."""
    if depth > 3 or len(out) > 400:
        return
    if z3.is_quantifier(f) and f.is_forall():
        n = f.num_vars()
        if any(f.var_sort(i) != z3.IntSort() for i in range(n)) or len(consts) ** n > 36:
            return
        import itertools
        for tup in itertools.product(consts, repeat=n):
            inst = z3.substitute_vars(f.body(), *reversed(tup))
            out.append(inst)
            _instances(inst, consts, out, depth + 1)
        return
    if z3.is_implies(f):
        sub = []
        _instances(f.arg(1), consts, sub, depth)
        out.extend(z3.Implies(f.arg(0), x) for x in sub)
    elif z3.is_and(f):
        for c in f.children():
            _instances(c, consts, out, depth)


def premise_instances(premises, goal):
    consts, seen = [], set()
    _skolem_consts(goal, consts, seen)
    out = []
    if not consts or len(consts) > 6:
        return out
    for p in premises:
        _instances(p, consts, out)
    return out


def mentions(t, c, seen=None):
    """Does the constant c occur in t?"""
    seen = seen if seen is not None else set()
    if t.get_id() in seen:
        return False
    seen.add(t.get_id())
    if z3.is_const(t) and t.eq(c):
        return True
    if z3.is_quantifier(t):
        return mentions(t.body(), c, seen)
    return any(mentions(k, c, seen) for k in t.children())


def _has_quant(t, seen=None):
    seen = seen if seen is not None else set()
    if t.get_id() in seen:
        return False
    seen.add(t.get_id())
    if z3.is_quantifier(t):
        return not t.is_lambda() or _has_quant(t.body(), seen)
    return any(_has_quant(c, seen) for c in t.children())


def _stage_ground(premises, goal, timeout_ms):
    """Quantifier-free attempt: the quantified premises are replaced by their instances at the goal's skolem
    constants (a subset of their consequences, so a proof here is a proof)."""
    inst = premise_instances(premises, goal)
    if not inst:
        return z3.unknown
    ground = [p for p in premises if not _has_quant(p)] + [p for p in inst if not _has_quant(p)]
    if _has_quant(goal):
        return z3.unknown
    cache = {}
    fs = [abstract_nl(p, cache) for p in ground]
    g = abstract_nl(goal, cache)
    # cheapest first: products as a plain uninterpreted function (congruence only), then the multiplication axioms,
    # then the ground re-association hints.  Each set of facts is a subset of the next: a proof from fewer facts is a
    # proof, and the quantified axioms plus ~100 hints slow the search by two orders of magnitude when not needed
    # (measured on read_plan's content clause: 0.02 s plain, 2-20 s with everything).
    hints = None
    for level in (0, 1, 2):
        s = _tactic_solver(min(timeout_ms, 3000) if level < 2 else timeout_ms)
        for f in fs:
            s.add(f)
        if level >= 1:
            for ax in _mul_axioms():
                s.add(ax)
        if level >= 2:
            hints = hints if hints is not None else _ground_mul_hints(fs + [g])
            for h in hints:
                s.add(h)
        s.add(z3.Not(g))
        r = s.check()
        if r == z3.unsat:
            return r
    return r


def _stage_abstract(premises, goal, timeout_ms, ground=False):
    if ground:
        premises = list(premises) + premise_instances(premises, goal)
    cache = {}
    fs = [abstract_nl(p, cache) for p in premises]
    g = abstract_nl(goal, cache)
    s = _tactic_solver(timeout_ms)
    for f in fs:
        s.add(f)
    for ax in _mul_axioms():
        s.add(ax)
    if ground:
        for h in _ground_mul_hints(fs + [g]):
            s.add(h)
    s.add(z3.Not(g))
    return s.check()


def split_last(goal):
    """forall a. lo <= a < t + 1 -> phi(a)   ==   (forall a. lo <= a < t -> phi(a))  and  (lo <= t -> phi(t)).
    The shape of an invariant re-established after the loop variable was incremented: the first conjunct is the old
    invariant, the second the newly completed element with the bound variable replaced syntactically (no case split
    on a quantified variable is left to the solver).  Returns [goal1, goal2] or None."""
    if not (z3.is_quantifier(goal) and goal.is_forall() and goal.num_vars() == 1):
        return None
    body = goal.body()
    if not (z3.is_implies(body) and z3.is_and(body.arg(0)) and body.arg(0).num_args() == 2):
        return None
    lo_c, hi_c = body.arg(0).arg(0), body.arg(0).arg(1)
    v0 = z3.Var(0, goal.var_sort(0))
    # lo <= a  (z3 may print it as a >= lo)
    if z3.is_le(lo_c) and lo_c.arg(1).eq(v0):
        lo = lo_c.arg(0)
    elif z3.is_ge(lo_c) and lo_c.arg(0).eq(v0):
        lo = lo_c.arg(1)
    else:
        return None
    if not (z3.is_lt(hi_c) and hi_c.arg(0).eq(v0)):
        return None
    hi = hi_c.arg(1)
    t = None
    if z3.is_add(hi) and hi.num_args() == 2:
        a0, a1 = hi.arg(0), hi.arg(1)
        if z3.is_int_value(a1) and a1.as_long() == 1:
            t = a0
        elif z3.is_int_value(a0) and a0.as_long() == 1:
            t = a1
    if t is None or mentions_var(t) or mentions_var(lo):
        return None
    phi = body.arg(1)
    g1 = z3.ForAll([z3.Const(goal.var_name(0), goal.var_sort(0))],
                   z3.Implies(z3.And(lo <= z3.Const(goal.var_name(0), goal.var_sort(0)),
                                     z3.Const(goal.var_name(0), goal.var_sort(0)) < t),
                              z3.substitute_vars(phi, z3.Const(goal.var_name(0), goal.var_sort(0)))))
    g2 = z3.Implies(lo <= t, z3.substitute_vars(phi, t))
    return [g1, g2]


def bound_int_consts(formulas, bound):
    """-bound <= c <= bound for every uninterpreted integer constant of the formulas (a restriction: a model under it
    is a model)."""
    seen, out = set(), {}

    def walk(t):
        if t.get_id() in seen:
            return
        seen.add(t.get_id())
        if z3.is_quantifier(t):
            walk(t.body())
            return
        if z3.is_app(t):
            if t.num_args() == 0 and t.decl().kind() == z3.Z3_OP_UNINTERPRETED and z3.is_int(t):
                out[t.get_id()] = t
            for c in t.children():
                walk(c)
    for f in formulas:
        walk(f)
    return [z3.And(c >= -bound, c <= bound) for c in out.values()]


def mentions_var(t, seen=None):
    """Does t contain a de Bruijn variable (i.e. is it open)?"""
    seen = seen if seen is not None else set()
    if t.get_id() in seen:
        return False
    seen.add(t.get_id())
    if z3.is_var(t):
        return True
    if z3.is_quantifier(t):
        return False
    return any(mentions_var(c, seen) for c in t.children())


AUX = {}  # id -> term: quantified auxiliary facts (unfoldings under a binder); kept alive so that ids stay unique


def check_valid(premises, goal, timeout_ms=10000, want_model=True, use_cvc5=True, hints=True, stages=None):
    """Is (/\\ premises) => goal valid?  proved / refuted(+model) / unknown.

    Portfolio, run in two rounds (short budget first, then the full one):
      (1) products abstracted to an uninterpreted mul with monotonicity axioms, ground re-association /
          distribution hints and premise instances at the goal's skolem constants (a proof there is a proof for
          real multiplication), (2) the same without the ground hints, (3) native non-linear arithmetic (the
          only source of counter-models), (4) native with product-monotonicity hints, (5) cvc5."""
    t0 = time.time()
    if hints and stages is None and not os.environ.get('PVC_NO_SPLIT'):
        parts = split_last(goal)
        if parts is not None:
            rs = [check_valid(premises, g, timeout_ms=min(timeout_ms, 12000), want_model=want_model, use_cvc5=use_cvc5, hints=True,
                              stages="nosplit") for g in parts]
            if all(r.status == "proved" for r in rs):
                return Result("proved", rs[-1].solver + " (last-element split)", time.time() - t0)
            for r in rs:
                if r.status == "refuted":
                    r.time_s = time.time() - t0
                    return r
    try:
        sk_goal = skolemize(goal)
    except z3.Z3Exception:
        sk_goal = goal
    reason = ""
    last_solver = None
    budgets = [min(1500, timeout_ms), timeout_ms] if timeout_ms > 3000 else [timeout_ms]
    core = [p for p in premises if p.get_id() not in AUX]
    ver = z3.get_version_string()
    use_core = hints and len(core) < len(premises) and not os.environ.get('PVC_NO_CORE')
    for rnd, budget in enumerate(budgets):
        ab = budget if rnd == 0 else min(budget, 30000)  # abstraction stages: a few seconds alone, more when 16 jobs compete

        def st_ground(prem, tag):
            return ("proved", f"z3-{ver}/{tag}ground-instances", None) if _stage_ground(prem, sk_goal, ab) == z3.unsat else None

        def st_abs(prem, tag, g=True):
            name = "abstract-mul+g" if g else "abstract-mul"
            return ("proved", f"z3-{ver}/{tag}{name}", None) if _stage_abstract(prem, sk_goal, ab, g) == z3.unsat else None

        def st_native(extra, tag):
            nonlocal last_solver, reason
            sv = _tactic_solver(budget if not extra else ab)
            for p in premises:
                sv.add(p)
            for h in extra:
                sv.add(h)
            sv.add(z3.Not(sk_goal))
            if not extra:
                last_solver = sv
            r = sv.check()
            if r == z3.unsat:
                return ("proved", f"z3-{ver}{tag}", None)
            if r == z3.sat:
                return ("refuted", f"z3-{ver}{tag}", sv.model() if want_model else None)
            if not extra:
                reason = sv.reason_unknown()
            return None

        cheap_first = []
        if use_core:
            cheap_first += [lambda: st_ground(core, "core "), lambda: st_abs(core, "core ")]
        if hints:
            cheap_first += [lambda: st_ground(premises, ""), lambda: st_abs(premises, "")]
        if rnd == 0:
            order = cheap_first + [lambda: st_native([], "")]
        else:
            # full budgets: the stage that proves nine obligations in ten (products abstracted) goes first, the
            # quantifier-free instance stage - three solver calls of its own - after the native attempt
            order = [f for k, f in enumerate(cheap_first) if k % 2 == 1] + [lambda: st_native([], "")] + \
                    [f for k, f in enumerate(cheap_first) if k % 2 == 0]
        if hints:
            order += [lambda: st_abs(premises, "", False), lambda: st_native(nl_hints(list(premises) + [sk_goal]), "/nl-hints")]
        for stage in order:
            try:
                res = stage()
            except z3.Z3Exception as exc:
                res = None
                reason = reason or f"z3 exception {exc}"
            if res is not None:
                status, solver, model = res
                return Result(status, solver, time.time() - t0, model=model)
    if use_cvc5 and last_solver is not None:
        r2 = _cvc5_cli(last_solver, timeout_ms)
        if r2 is not None:
            r2.time_s = time.time() - t0
            return r2
    return Result("unknown", "z3", time.time() - t0, reason=reason)


def _native_divmod(f):
    """Replace the axiomatised fdiv/fmod by z3's div/mod (one interpretation that satisfies the axiom for positive
    divisors - the only ones it constrains), also under quantifiers: a model of the result is a model of the
    original."""
    INT = z3.IntSort()
    fd = z3.Function("fdiv", INT, INT, INT)
    fm = z3.Function("fmod", INT, INT, INT)
    x, y = z3.Var(0, INT), z3.Var(1, INT)
    return z3.substitute_funs(f, (fd, x / y), (fm, x % y))


def _is_fdiv_axiom(f):
    return z3.is_quantifier(f) and f.is_forall() and f.num_vars() == 2 and f.var_name(0) == "x_d"


def check_sat(formulas, timeout_ms=5000, native_retry=True, native_only=False):
    """Satisfiability (for cover obligations): 'sat' | 'unsat' | 'unknown'.
    native_only: floor division interpreted by z3's div/mod from the start (sound for 'sat' only)."""
    r = z3.unknown
    if not native_only:
        s = _tactic_solver(timeout_ms)
        for f in formulas:
            s.add(f)
        r = s.check()
        if r == z3.sat:
            return "sat", s.model()
    if r == z3.unknown and (native_retry or native_only):
        # floor division interpreted natively (no quantified axiom left to instantiate)
        fs = [f for f in formulas if not _is_fdiv_axiom(f)]
        s2 = _tactic_solver(timeout_ms)
        for f in fs:
            s2.add(_native_divmod(f))
        if s2.check() == z3.sat:
            return "sat", s2.model()
    return ("unsat" if r == z3.unsat else "unknown"), None


def _cvc5_cli(solver, timeout_ms):
    exe = "/usr/bin/cvc5"
    if not os.path.exists(exe):
        return None
    try:
        txt = solver.to_smt2()
    except z3.Z3Exception:
        return None
    if "int_to_bv" in txt or "int2bv" in txt or "(lambda" in txt:
        return None
    t0 = time.time()
    with tempfile.NamedTemporaryFile("w", suffix=".smt2", delete=False) as fh:
        fh.write("(set-logic ALL)\n" + txt)
        path = fh.name
    try:
        out = subprocess.run([exe, "--strings-exp", f"--tlimit={timeout_ms}", path], capture_output=True,
                             text=True, timeout=timeout_ms / 1000 + 5)
        first = out.stdout.strip().splitlines()[0] if out.stdout.strip() else ""
    except (subprocess.TimeoutExpired, OSError):
        first = ""
    finally:
        os.unlink(path)
    dt = time.time() - t0
    if first == "unsat":
        return Result("proved", "cvc5-1.0.3", dt)
    # a cvc5 'sat' without a model in our term language is not used as a refutation
    return None


def model_value(model, t):
    try:
        v = model.eval(t, model_completion=True)
    except z3.Z3Exception:
        return None
    if z3.is_int_value(v):
        return v.as_long()
    if z3.is_rational_value(v):
        return v.numerator_as_long() / v.denominator_as_long()
    if z3.is_true(v):
        return True
    if z3.is_false(v):
        return False
    if z3.is_bv_value(v):
        return v.as_long()
    if z3.is_string_value(v):
        return v.as_string()
    if z3.is_algebraic_value(v):
        return float(v.approx(20).as_fraction())
    return str(v)
