"""SMT layer: term helpers, witness-encoded div/mod, polynomial normalisation, back ends."""
from __future__ import annotations

import os
import subprocess
import tempfile
import time

import z3

_ctr = [0]


def fresh(prefix: str, sort=None):
    _ctr[0] += 1
    name = f"{prefix}!{_ctr[0]}"
    if sort is None or sort == z3.IntSort():
        return z3.Int(name)
    return z3.Const(name, sort)


def reset_names():
    _ctr[0] = 0


def som(t):
    """Sum-of-monomials normal form for integer/real index terms."""
    try:
        return z3.simplify(t, som=True, mul_to_power=False, arith_lhs=False)
    except z3.Z3Exception:
        return t


def simp(t):
    try:
        return z3.simplify(t)
    except z3.Z3Exception:
        return t


def is_conc_int(t):
    t = simp(t)
    return z3.is_int_value(t)


def conc_int(t):
    t = simp(t)
    if z3.is_int_value(t):
        return t.as_long()
    return None


def conc_bool(t):
    t = simp(t)
    if z3.is_true(t):
        return True
    if z3.is_false(t):
        return False
    return None


def conc_real(t):
    t = simp(t)
    if z3.is_rational_value(t):
        from fractions import Fraction
        return Fraction(t.numerator_as_long(), t.denominator_as_long())
    if z3.is_int_value(t):
        from fractions import Fraction
        return Fraction(t.as_long())
    return None


# ---------------------------------------------------------------------------------- solving
class Result:
    def __init__(self, status, solver, time_s, model=None, reason=""):
        self.status = status  # 'proved' | 'refuted' | 'unknown'
        self.solver = solver
        self.time_s = time_s
        self.model = model
        self.reason = reason


def _tactic_solver(timeout_ms):
    s = z3.Solver()
    s.set("timeout", timeout_ms)
    return s


def check_valid(premises, goal, timeout_ms=10000, want_model=True, use_cvc5=True):
    """Is (/\\ premises) => goal valid?  proved / refuted(+model) / unknown."""
    t0 = time.time()
    s = _tactic_solver(timeout_ms)
    for p in premises:
        s.add(p)
    s.add(z3.Not(goal))
    try:
        r = s.check()
    except z3.Z3Exception as exc:  # pragma: no cover
        return Result("unknown", "z3", time.time() - t0, reason=f"z3 exception {exc}")
    dt = time.time() - t0
    if r == z3.unsat:
        return Result("proved", "z3-%s" % z3.get_version_string(), dt)
    if r == z3.sat:
        m = s.model() if want_model else None
        return Result("refuted", "z3-%s" % z3.get_version_string(), dt, model=m)
    reason = s.reason_unknown()
    if use_cvc5:
        r2 = _cvc5_cli(s, timeout_ms)
        if r2 is not None:
            r2.time_s += dt
            return r2
    return Result("unknown", "z3", dt, reason=reason)


def check_sat(formulas, timeout_ms=5000):
    """Satisfiability (for cover obligations): 'sat' | 'unsat' | 'unknown'."""
    s = _tactic_solver(timeout_ms)
    for f in formulas:
        s.add(f)
    r = s.check()
    if r == z3.sat:
        return "sat", s.model()
    return ("unsat" if r == z3.unsat else "unknown"), None


def _cvc5_cli(solver, timeout_ms):
    exe = "/usr/bin/cvc5"
    if not os.path.exists(exe):
        return None
    try:
        txt = solver.to_smt2()
    except z3.Z3Exception:
        return None
    if "int_to_bv" in txt or "int2bv" in txt or "(lambda" in txt:
        return None
    t0 = time.time()
    with tempfile.NamedTemporaryFile("w", suffix=".smt2", delete=False) as fh:
        fh.write("(set-logic ALL)\n" + txt)
        path = fh.name
    try:
        out = subprocess.run([exe, "--strings-exp", f"--tlimit={timeout_ms}", path], capture_output=True,
                             text=True, timeout=timeout_ms / 1000 + 5)
        first = out.stdout.strip().splitlines()[0] if out.stdout.strip() else ""
    except (subprocess.TimeoutExpired, OSError):
        first = ""
    finally:
        os.unlink(path)
    dt = time.time() - t0
    if first == "unsat":
        return Result("proved", "cvc5-1.0.3", dt)
    # a cvc5 'sat' without a model in our term language is not used as a refutation
    return None


def model_value(model, t):
    try:
        v = model.eval(t, model_completion=True)
    except z3.Z3Exception:
        return None
    if z3.is_int_value(v):
        return v.as_long()
    if z3.is_rational_value(v):
        return v.numerator_as_long() / v.denominator_as_long()
    if z3.is_true(v):
        return True
    if z3.is_false(v):
        return False
    if z3.is_bv_value(v):
        return v.as_long()
    if z3.is_string_value(v):
        return v.as_string()
    if z3.is_algebraic_value(v):
        return float(v.approx(20).as_fraction())
    return str(v)
