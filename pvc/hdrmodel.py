"""Header record model (attrs class): new_header / construction / time arithmetic (A-ATTRS, A-ASTRO)."""
from __future__ import annotations

import ast

import z3

from . import smt
from .models import MODELS, model, val
from .source import OutOfSubset
from .state import Outcome
from .values import *  # noqa: F403

HDR_FILE = "sigpyproc/header.py"
MJD_AFTER = z3.Function("mjd_after", REAL, REAL, REAL, REAL)


def header_fields(eng):
    mod = eng.src.module(HDR_FILE)
    cls = mod.classes["Header"][0]
    out = []
    for s in cls.body:
        if isinstance(s, ast.AnnAssign) and isinstance(s.target, ast.Name):
            out.append(s.target.id)
    return out


def new_header(eng, st, args, kwargs, line):
    """attrs.asdict(self) updated by the dict; keys that are not Header fields are dropped (as the code does)."""
    eng.assume_tag("A-ATTRS")
    self_v = args[0]
    upd = args[1] if len(args) > 1 else kwargs.get("update_dict", NONE)
    fields = dict(st.objs[self_v.oid])
    if isinstance(upd, VDict):
        names = set(header_fields(eng))
        for k, v in upd.d.items():
            if k in names:
                fields[k] = v
            else:
                eng.ignored_header_keys = getattr(eng, "ignored_header_keys", []) + [k]
    elif not isinstance(upd, VNone):
        raise OutOfSubset(f"line {line}: new_header({upd!r})")
    return val(st, VObj(eng.new_oid(st, fields), "Header", HDR_FILE))


MODELS["repo:sigpyproc/header.py::Header.new_header"] = new_header


def mjd_after_nsamps(eng, st, args, kwargs, line):
    eng.assume_tag("A-ASTRO")
    h = st.objs[args[0].oid]
    n = eng.to_real(args[1], line)
    t = MJD_AFTER(eng.to_real(h["tstart"]), eng.to_real(h["tsamp"]), n)
    st.assume(t == eng.to_real(h["tstart"]) + n * eng.to_real(h["tsamp"]) / 86400)
    return val(st, VReal(t))


MODELS["repo:sigpyproc/header.py::Header.mjd_after_nsamps"] = mjd_after_nsamps


@model("numpy.asarray")
def np_asarray(eng, st, args, kwargs, line):
    eng.assume_tag("A-NP")
    a = args[0]
    if isinstance(a, (VArr, VArr2)):
        return val(st, a)
    raise OutOfSubset(f"line {line}: np.asarray({a!r})")


@model("arrmethod.max", "arrmethod.min")
def arr_max(eng, st, args, kwargs, line, which=None):
    raise OutOfSubset("dispatch by name below")


def _extremum(name):
    def f(eng, st, args, kwargs, line):
        eng.assume_tag("A-NP")
        a = args[0]
        if not isinstance(a, VArr) or len(args) > 1 or kwargs:
            raise OutOfSubset(f"line {line}: .{name}() form")
        kind = st.hmeta[a.obj]["kind"]
        m = smt.fresh("amax" if name == "max" else "amin", INT if kind == "int" else REAL)
        j = smt.fresh("jm")
        el = z3.Select(st.heap[a.obj], eng.arr_index_term(a, j))
        eng.oblig(st, f"empty@{line}", a.n >= 1, line, label=f"{name} of an empty array")
        st.assume(a.n >= 1)
        cmp = (el <= m) if name == "max" else (el >= m)
        w = smt.fresh("wm")
        st.assume(z3.ForAll([j], z3.Implies(z3.And(0 <= j, j < a.n), cmp)))
        st.assume(z3.And(0 <= w, w < a.n, z3.Select(st.heap[a.obj], eng.arr_index_term(a, w)) == m))
        return val(st, VInt(m) if kind == "int" else VReal(m))
    return f


MODELS["arrmethod.max"] = _extremum("max")
MODELS["arrmethod.min"] = _extremum("min")


def _np_extremum(name):
    inner = _extremum(name)

    def f(eng, st, args, kwargs, line):
        return inner(eng, st, args[:1], {}, line)
    return f


MODELS["numpy.max"] = _np_extremum("max")
MODELS["numpy.min"] = _np_extremum("min")
