"""Stream / file model (A-IO): ghost description of a multi-file SIGPROC stream and io.FileIO on it.

Ghost (one stream per verification):
  nf            number of files (>= 1)
  hdrlen(i), datalen(i)   header / data-section byte lengths of file i
  csum(n) = sum_{i<n} datalen(i)         (one-step unfolding emitted at every use)
  D[s]          byte s of the data sections joined end to end (bit-vector 8)
File i holds header bytes (never inspected: reading one is the obligation `nohdr`) followed by
D[csum(i) : csum(i+1)].
"""
from __future__ import annotations

import z3

from . import smt
from .calls import VOpaqueArr
from .models import MODELS, model, val, dtype_of, kind_of_dtype, new_array
from .source import OutOfSubset
from .state import Outcome
from .values import *  # noqa: F403

NF = z3.Int("nf")
HDR = z3.Function("hdrlen", INT, INT)
DLEN = z3.Function("datalen", INT, INT)
CSUM = z3.Function("csum", INT, INT)
D = z3.Const("D", z3.ArraySort(INT, BV8))
DEC16 = z3.Function("dec16", BV8, BV8, REAL)
DEC32 = z3.Function("dec32", BV8, BV8, BV8, BV8, REAL)
# writer ghost: bytes appended so far to the output file
ENC32 = z3.Function("enc32", REAL, INT, BV8)  # byte k of the float32 encoding of a real sample
ENC16 = z3.Function("enc16", REAL, INT, BV8)


class VRec(V):
    """Immutable record (FileInfo entry, ...)."""
    __slots__ = ("fields", "cls")

    def __init__(self, fields, cls="rec"):
        self.fields, self.cls = fields, cls


class VFileName(V):
    __slots__ = ("idx",)

    def __init__(self, idx):
        self.idx = idx


_a, _b = z3.Ints("a_m b_m")
# proved by induction as verif:specs/clients.py::lemma_csum_mono (C02); used as an axiom elsewhere
CSUM_MONO = z3.ForAll([_a, _b], z3.Implies(z3.And(0 <= _a, _a <= _b, _b <= NF), CSUM(_a) <= CSUM(_b)),
                      patterns=[z3.MultiPattern(CSUM(_a), CSUM(_b))])
STREAM_WF = z3.And(NF >= 1, z3.ForAll([_a], z3.Implies(z3.And(0 <= _a, _a < NF), z3.And(HDR(_a) >= 0, DLEN(_a) >= 0)),
                                      patterns=[DLEN(_a)]))


def csum_of(eng, st, n):
    """csum(n) with its defining instance (valid fact about the ghost)."""
    n = smt.som(n)
    t = CSUM(n)
    st.assume(t == z3.If(n <= 0, z3.IntVal(0), CSUM(smt.som(n - 1)) + DLEN(smt.som(n - 1))))
    if not any(p is CSUM_BASE for p in st.pc):
        st.assume(CSUM_BASE)
    if not getattr(eng, "no_lemma_axioms", False) and not any(p is CSUM_IMPL for p in st.pc):
        st.assume(CSUM_IMPL)
        eng.assume_tag("LEMMA:csum_mono")
    return t


CSUM_IMPL = z3.Implies(STREAM_WF, CSUM_MONO)
CSUM_BASE = CSUM(z3.IntVal(0)) == 0


class GhostSpec:
    def __init__(self, name, fn):
        self.name, self.fn = name, fn

    def apply(self, eng, st, args, line=0):
        return self.fn(eng, st, args)


def ghost_specs():
    S = {}
    S["nf"] = GhostSpec("nf", lambda e, st, a: VInt(NF))
    S["hdrlen"] = GhostSpec("hdrlen", lambda e, st, a: VInt(HDR(smt.som(e.to_int(a[0])))))
    S["datalen"] = GhostSpec("datalen", lambda e, st, a: VInt(DLEN(smt.som(e.to_int(a[0])))))
    S["csum"] = GhostSpec("csum", lambda e, st, a: VInt(csum_of(e, st, e.to_int(a[0]))))
    S["Dbyte"] = GhostSpec("Dbyte", lambda e, st, a: VBV(z3.Select(D, smt.som(e.to_int(a[0])))))
    def xs(e, st, a):
        nb = smt.conc_int(e.to_int(a[0]))
        order = a[1].s
        i = smt.som(e.to_int(a[2]))
        if nb == 8:
            return VBV(z3.Select(D, i))
        if nb == 16:
            return VReal(DEC16(z3.Select(D, smt.som(2 * i)), z3.Select(D, smt.som(2 * i + 1))))
        if nb == 32:
            return VReal(DEC32(*[z3.Select(D, smt.som(4 * i + k)) for k in range(4)]))
        f = 8 // nb
        byte = z3.Select(D, i / f)
        j = i % f
        res = None
        for jj in reversed(range(f)):
            sh = (f - 1 - jj) * nb if order == "big" else jj * nb
            fld = z3.ZeroExt(8 - nb, z3.Extract(sh + nb - 1, sh, byte))
            res = fld if res is None else z3.If(j == jj, fld, res)
        return VBV(res)
    S["xs"] = GhostSpec("xs", xs)
    # ghost delays of the DM under consideration (result of Header.get_dmdelays): DLY[c], their maximum MAXD
    DLY = z3.Const("DLY", z3.ArraySort(INT, INT))
    MAXD, DWIT = z3.Int("MAXD"), z3.Int("DWIT")

    def dly(e, st, a):
        if a:
            return VInt(z3.Select(DLY, smt.som(e.to_int(a[0]))))
        return VOpaqueArr(DLY)
    S["DLY"] = GhostSpec("DLY", dly)
    S["MAXD"] = GhostSpec("MAXD", lambda e, st, a: VInt(MAXD))
    S["DWIT"] = GhostSpec("DWIT", lambda e, st, a: VInt(DWIT))
    # uninterpreted laws used by the folded-cube contracts (C17): dispersion delay in bins, and rounding
    DDF = z3.Function("DDF", REAL, REAL, REAL, INT, INT)
    from .models import RNDF
    S["DDF"] = GhostSpec("DDF", lambda e, st, a: VInt(DDF(e.to_real(a[0]), e.to_real(a[1]), e.to_real(a[2]), smt.som(e.to_int(a[3])))))
    S["rndf"] = GhostSpec("rndf", lambda e, st, a: VInt(RNDF(e.to_real(a[0]))))
    # whole-file sample sequence of a PSRFITS file (C18): time-major, descending frequency, calibrated
    PXF = z3.Function("PX", INT, REAL)
    S["PX"] = GhostSpec("PX", lambda e, st, a: VReal(PXF(smt.som(e.to_int(a[0])))))
    # C14: symmetric padding and moving window functions (same terms as the numpy / bottleneck models)
    def sympad(e, st, a):
        from .models import sympad_term
        return VOpaqueArr(sympad_term(e, st, a[0], e.to_int(a[1])))

    def movef(e, st, a):
        from .models import move_fn
        return VReal(move_fn(a[0].s)(a[1].t, smt.som(e.to_int(a[2])), e.to_int(a[3])))
    # C16: outlier flag of channel c under a named method (uninterpreted)
    OUTL = z3.Function("outlier", z3.StringSort(), z3.ArraySort(INT, REAL), REAL, INT, BOOL)
    S["outlier"] = GhostSpec("outlier", lambda e, st, a: VBool(OUTL(a[0].t if a[0].s is None else z3.StringVal(a[0].s), a[1].t,
                                                                    e.to_real(a[2]), smt.som(e.to_int(a[3])))))
    # C05: byte strings (pvc/bytesmodel.py)
    def _bm():
        from . import bytesmodel
        return bytesmodel
    S["cat"] = GhostSpec("cat", lambda e, st, a: _bm().VBytes(z3.Concat(*[x.t for x in a]) if len(a) > 1 else a[0].t))
    S["packI"] = GhostSpec("packI", lambda e, st, a: _bm().pack_term(e, st, "I", a[0], check=False))
    S["packD"] = GhostSpec("packD", lambda e, st, a: _bm().pack_term(e, st, "d", a[0], check=False))
    S["packB"] = GhostSpec("packB", lambda e, st, a: _bm().pack_term(e, st, "b", a[0], check=False))
    S["unpackI"] = GhostSpec("unpackI", lambda e, st, a: VInt(_bm().UNPACK["I"](a[0].t)))
    S["enc"] = GhostSpec("enc", lambda e, st, a: _bm().enc_term(e, st, a[0]))
    S["dec"] = GhostSpec("dec", lambda e, st, a: VStr(None, _bm().DEC(a[0].t)))
    S["sub"] = GhostSpec("sub", lambda e, st, a: _bm().VBytes(_bm().named_sub(e, st, a[0].t, e.to_int(a[1]), e.to_int(a[2]))))
    def isfin(e, st, a):
        from .npelem import _notfin
        x = a[0]
        return VBool(z3.Not(_notfin(e, st, x, e.to_int(a[1]), {id(x): (lambda j: j)})))
    S["isfin"] = GhostSpec("isfin", isfin)
    DS2 = z3.Function("ds2", z3.StringSort(), z3.ArraySort(INT, REAL), INT, INT, INT, INT, INT, REAL)
    S["ds2"] = GhostSpec("ds2", lambda e, st, a: VReal(DS2(a[0].t if a[0].s is None else z3.StringVal(a[0].s), a[1].t,
                                                           *[smt.som(e.to_int(x)) for x in a[2:7]])))
    def med1(e, st, a):
        from .models import MED1
        return VReal(MED1(a[0].t, smt.som(e.to_int(a[1])), e.to_int(a[2])))
    S["med1"] = GhostSpec("med1", med1)
    GOODF = z3.Function("GOOD", INT, INT)
    S["GOOD"] = GhostSpec("GOOD", lambda e, st, a: VInt(GOODF(smt.som(e.to_int(a[0])))))
    S["sympad"] = GhostSpec("sympad", sympad)
    S["movef"] = GhostSpec("movef", movef)
    S["dec16"] = GhostSpec("dec16", lambda e, st, a: VReal(DEC16(a[0].t, a[1].t)))
    S["dec32"] = GhostSpec("dec32", lambda e, st, a: VReal(DEC32(a[0].t, a[1].t, a[2].t, a[3].t)))
    return S


def stream_entries():
    return VSeq(NF, lambda i: VRec({"hdrlen": VInt(HDR(smt.som(i))), "datalen": VInt(DLEN(smt.som(i))),
                                    "filename": VFileName(i)}, "FileInfo"))


def stream_files():
    return VSeq(NF, lambda i: VFileName(i))


# ------------------------------------------------------------------ io.FileIO
def fileio_new(eng, st, args, kwargs, line):
    eng.assume_tag("A-IO")
    fn = args[0]
    if not isinstance(fn, VFileName):
        return outfile_new(eng, st, args, kwargs, line)
    mode = kwargs.get("mode", args[1] if len(args) > 1 else VStr("r"))
    oid = eng.new_oid(st, {"fid": VInt(fn.idx), "pos": VInt(0), "closed": VBool(False), "mode": mode})
    return val(st, VObj(oid, "FileIO"))


MODELS["io.FileIO"] = fileio_new


def _f(st, obj):
    return st.objs[obj.oid]


def _size(fid):
    return HDR(fid) + DLEN(fid)


@model("FileIO.tell")
def fio_tell(eng, st, args, kwargs, line):
    return val(st, _f(st, args[0])["pos"])


@model("FileIO.close")
def fio_close(eng, st, args, kwargs, line):
    _f(st, args[0])["closed"] = VBool(True)
    return val(st, NONE)


@model("FileIO.fileno")
def fio_fileno(eng, st, args, kwargs, line):
    return val(st, VRec({"fid": _f(st, args[0])["fid"]}, "fd"))


@model("os.fstat")
def os_fstat(eng, st, args, kwargs, line):
    eng.assume_tag("A-IO")
    fd = args[0]
    if not isinstance(fd, VRec) or fd.cls != "fd":
        raise OutOfSubset(f"line {line}: os.fstat of {fd!r}")
    return val(st, VRec({"st_size": VInt(_size(fd.fields["fid"].t))}, "stat"))


@model("FileIO.seek")
def fio_seek(eng, st, args, kwargs, line):
    eng.assume_tag("A-IO")
    f = _f(st, args[0])
    off = eng.to_int(args[1], line)
    wh = kwargs.get("whence", args[2] if len(args) > 2 else VInt(0))
    w = smt.conc_int(eng.to_int(wh, line))
    if w == 0:
        new = off
    elif w == 1:
        new = f["pos"].t + off
    elif w == 2:
        new = _size(f["fid"].t) + off
    else:
        raise OutOfSubset(f"line {line}: FileIO.seek whence {wh!r}")
    new = smt.som(new)
    eng.oblig(st, f"seekneg@{line}", new >= 0, line, label="OSError on negative file position")
    st.assume(new >= 0)
    f["pos"] = VInt(new)
    return val(st, VInt(new))


def _data_base(eng, st, f, line, what):
    """Stream offset of the file position; reading header bytes is the `nohdr` obligation."""
    fid, pos = f["fid"].t, f["pos"].t
    eng.oblig(st, f"nohdr@{line}", pos >= HDR(fid), line, label=f"{what} never returns header bytes")
    st.assume(pos >= HDR(fid))
    return smt.som(csum_of(eng, st, fid) + pos - HDR(fid))


@model("FileIO.readinto")
def fio_readinto(eng, st, args, kwargs, line):
    eng.assume_tag("A-IO")
    f = _f(st, args[0])
    buf = args[1]
    if not isinstance(buf, VArr) or st.hmeta[buf.obj]["kind"] != "bv8" or smt.conc_int(buf.stride) != 1:
        raise OutOfSubset(f"line {line}: readinto target {buf!r}")
    fid, pos = f["fid"].t, f["pos"].t
    base = _data_base(eng, st, f, line, "readinto")
    avail = _size(fid) - pos
    m = smt.fresh("nread")
    st.assume(m == z3.If(avail < 0, z3.IntVal(0), z3.If(buf.n <= avail, buf.n, avail)))
    old = st.heap[buf.obj]
    j = z3.Int("j!rd")
    k = j - buf.off
    st.heap[buf.obj] = z3.Lambda([j], z3.If(z3.And(0 <= k, k < m), z3.Select(D, base + k), z3.Select(old, j)))
    f["pos"] = VInt(smt.som(pos + m))
    return val(st, VInt(m))


@model("numpy.fromfile")
def np_fromfile(eng, st, args, kwargs, line):
    eng.assume_tag("A-IO")
    eng.assume_tag("A-NP")
    fo = args[0]
    if not (isinstance(fo, VObj) and fo.cls == "FileIO"):
        raise OutOfSubset(f"line {line}: np.fromfile source {fo!r}")
    f = _f(st, fo)
    count = eng.to_int(kwargs.get("count", VInt(-1)), line)
    dt = dtype_of(eng, kwargs.get("dtype"), "f8")
    isz = {"u1": 1, "u2": 2, "f4": 4}[dt]
    fid, pos = f["fid"].t, f["pos"].t
    base = _data_base(eng, st, f, line, "fromfile")
    avail = _size(fid) - pos
    q, _r = eng.int_divmod(st, avail, z3.IntVal(isz), line)
    m = smt.fresh("nelem")
    st.assume(z3.Implies(count >= 0, m == z3.If(avail < 0, z3.IntVal(0), z3.If(count <= q, count, q))))
    st.assume(z3.Implies(count < 0, m == z3.If(avail < 0, z3.IntVal(0), q)))
    f["pos"] = VInt(smt.som(pos + isz * m))
    j = z3.Int("j!ff")
    if isz == 1:
        obj = eng.new_obj(st, "bv8", "u1", "ff", contents=z3.Lambda([j], z3.Select(D, base + j)))
        return val(st, VArr(obj, z3.IntVal(0), z3.IntVal(1), m))
    if isz == 2:
        c = z3.Lambda([j], DEC16(z3.Select(D, base + 2 * j), z3.Select(D, base + 2 * j + 1)))
    else:
        c = z3.Lambda([j], DEC32(z3.Select(D, base + 4 * j), z3.Select(D, base + 4 * j + 1),
                                 z3.Select(D, base + 4 * j + 2), z3.Select(D, base + 4 * j + 3)))
    obj = eng.new_obj(st, "real", dt, "ff", contents=c)
    return val(st, VArr(obj, z3.IntVal(0), z3.IntVal(1), m))


# ------------------------------------------------------------------ buffers
@model("builtins.bytearray")
def b_bytearray(eng, st, args, kwargs, line):
    n = eng.to_int(args[0], line)
    obj = eng.new_obj(st, "bv8", "u1", "buf", contents=z3.K(INT, z3.BitVecVal(0, 8)))
    return val(st, VArr(obj, z3.IntVal(0), z3.IntVal(1), n))


@model("builtins.memoryview")
def b_memoryview(eng, st, args, kwargs, line):
    if isinstance(args[0], VArr):
        return val(st, args[0])
    raise OutOfSubset(f"line {line}: memoryview of {args[0]!r}")


@model("numpy.frombuffer")
def np_frombuffer(eng, st, args, kwargs, line):
    eng.assume_tag("A-NP")
    buf = args[0]
    dt = dtype_of(eng, kwargs.get("dtype", args[1] if len(args) > 1 else None), "f8")
    if not isinstance(buf, VArr) or st.hmeta[buf.obj]["kind"] != "bv8":
        raise OutOfSubset(f"line {line}: frombuffer of {buf!r}")
    if dt == "u1":
        return val(st, buf)
    isz = {"u2": 2, "f4": 4}.get(dt)
    if isz is None:
        raise OutOfSubset(f"line {line}: frombuffer dtype {dt}")
    q, r = eng.int_divmod(st, buf.n, z3.IntVal(isz), line)
    eng.oblig(st, f"frombuffer@{line}", r == 0, line, label="buffer size multiple of itemsize")
    return val(st, VArrDec(buf.obj, buf.off, isz, q, dt))


class VArrDec(V):
    """Live typed view (np.frombuffer with a 2/4-byte dtype) of a byte buffer: element k decodes bytes
    [off + isz*k, off + isz*(k+1)) of the *current* buffer contents."""
    __slots__ = ("obj", "off", "isz", "n", "dtype")

    def __init__(self, obj, off, isz, n, dtype):
        self.obj, self.off, self.isz, self.n, self.dtype = obj, off, isz, n, dtype


def dec_elem(st, a: VArrDec, k, heap=None):
    h = (heap or st.heap)[a.obj]
    b = [z3.Select(h, smt.som(a.off + a.isz * k + i)) for i in range(a.isz)]
    return VReal(DEC16(*b) if a.isz == 2 else DEC32(*b))


# ------------------------------------------------------------------ np.where(cond)[0][0]
class VFirstTrueTuple(V):
    __slots__ = ("arr",)

    def __init__(self, arr):
        self.arr = arr


@model("numpy.where")
def np_where(eng, st, args, kwargs, line):
    eng.assume_tag("A-NP")
    if len(args) == 1 and isinstance(args[0], VArr) and st.hmeta[args[0].obj]["kind"] == "bool":
        return val(st, VTuple([VFirstTrueTuple(args[0])]))
    raise OutOfSubset(f"line {line}: np.where form")


def first_true(eng, st, ft: VFirstTrueTuple, line):
    a = ft.arr

    def cond(k):
        return z3.Select(st.heap[a.obj], eng.arr_index_term(a, k))
    i = smt.fresh("first")
    j = smt.fresh("jw")
    if eng.spec_depth == 0:
        ex = smt.fresh("ew")
        goal = z3.Or(z3.And(a.n >= 1, cond(a.n - 1)), z3.And(a.n >= 1, cond(z3.IntVal(0))),
                     z3.Exists([ex], z3.And(0 <= ex, ex < a.n, cond(ex))))
        eng.oblig(st, f"index@{line}", goal, line, label="np.where(...)[0][0] on an all-false mask (IndexError)")
    st.assume(z3.And(0 <= i, i < a.n, cond(i), z3.ForAll([j], z3.Implies(z3.And(0 <= j, j < i), z3.Not(cond(j))))))
    return VInt(i)


# ------------------------------------------------------------------ np.concatenate of a chunk list
@model("numpy.concatenate")
def np_concatenate(eng, st, args, kwargs, line):
    eng.assume_tag("A-NP")
    x = args[0]
    if isinstance(x, VObj) and x.cls == "ChunkList":
        f = st.objs[x.oid]
        return val(st, VArr(f["obj"], z3.IntVal(0), z3.IntVal(1), f["n"].t))
    if isinstance(x, (VList, VTuple)) and all(isinstance(i, VArr) for i in x.items) and x.items:
        kind = st.hmeta[x.items[0].obj]["kind"]
        j = z3.Int("j!cc")
        total = z3.IntVal(0)
        pieces = []
        for a in x.items:
            pieces.append((total, a))
            total = total + a.n
        body = None
        for (start, a) in reversed(pieces):
            el = z3.Select(st.heap[a.obj], eng.arr_index_term(a, j - start))
            body = el if body is None else z3.If(j < start + a.n, el, body)
        obj = eng.new_obj(st, kind, st.hmeta[x.items[0].obj].get("dtype"), "cat", contents=z3.Lambda([j], body))
        return val(st, VArr(obj, z3.IntVal(0), z3.IntVal(1), smt.som(total)))
    raise OutOfSubset(f"line {line}: np.concatenate of {x!r}")


def chunklist_new(eng, st, kind="bv8", dtype="u1"):
    obj = eng.new_obj(st, kind, dtype, "chunks")
    oid = eng.new_oid(st, {"obj": obj, "n": VInt(0)})
    return VObj(oid, "ChunkList")


@model("ChunkList.append")
def chunk_append(eng, st, args, kwargs, line):
    cl, a = args[0], args[1]
    f = st.objs[cl.oid]
    if isinstance(a, VArrDec):
        raise OutOfSubset(f"line {line}: append of a decoded view")
    if not isinstance(a, VArr):
        raise OutOfSubset(f"line {line}: append of {a!r}")
    akind = st.hmeta[a.obj]["kind"]
    if f.get("fresh", True) and st.hmeta[f["obj"]]["kind"] != akind:
        # first append decides the element kind
        f["obj"] = eng.new_obj(st, akind, st.hmeta[a.obj].get("dtype"), "chunks")
    f["fresh"] = False
    old = st.heap[f["obj"]]
    n = f["n"].t
    j = z3.Int("j!ap")
    st.heap[f["obj"]] = z3.Lambda([j], z3.If(j < n, z3.Select(old, j),
                                             z3.Select(st.heap[a.obj], eng.arr_index_term(a, j - n))))
    f["n"] = VInt(smt.som(n + a.n))
    return val(st, NONE)


# ------------------------------------------------------------------ ghost sample array of the stream (consumers)
XS_OBJ = "XS"


def xs_object(eng, st):
    """XS[i]: unpacked sample i of the stream as a real number (flat, time-major: sample t, channel c at t*nchans+c)."""
    if XS_OBJ not in st.heap:
        st.heap[XS_OBJ] = z3.Const("XS", z3.ArraySort(INT, REAL))
        st.hmeta[XS_OBJ] = {"kind": "real", "dtype": None}
    return XS_OBJ


# ------------------------------------------------------------------ output file (writer side) ghost
ITEMSIZE = {"u1": 1, "u2": 2, "f4": 4, "f8": 8, "i4": 4, "i8": 8, "b1": 1, "c8": 8}


def outfile_new(eng, st, args, kwargs, line):
    """io.FileIO(name, mode) on an output file: unbuffered, position always at the end of what was written.

    Ghost: nbytes (data bytes appended by tofile), elems (the elements appended, in order), ebits (bits per
    element on disk), hdr_writes / hdr_after_data (raw write() calls), seeks (any repositioning), mode."""
    mode = kwargs.get("mode", args[1] if len(args) > 1 else VStr("r"))
    cl = chunklist_new(eng, st, "real", None)
    oid = eng.new_oid(st, {"mode": mode, "nbytes": VInt(0), "hdr_writes": VInt(0), "hdr_after_data": VBool(False),
                           "seeks": VInt(0), "closed": VBool(False), "elems": cl, "ebits": VInt(0), "buffered": VBool(False)})
    return val(st, VObj(oid, "OutFile"))


def buffered_wrap(eng, st, args, kwargs, line):
    """io.BufferedWriter(raw) / io.BufferedRandom(raw): the same output file behind a user-space buffer - what has been
    written need not be on disk when a write returns (ghost flag `buffered`)."""
    raw = args[0] if args else None
    if not (isinstance(raw, VObj) and raw.cls == "OutFile"):
        raise OutOfSubset(f"line {line}: buffered wrapper around {raw!r}")
    st.objs[raw.oid]["buffered"] = VBool(True)
    return val(st, raw)


def builtin_open(eng, st, args, kwargs, line):
    """open(name, mode) for writing in binary mode returns a BUFFERED stream unless buffering=0."""
    mode = kwargs.get("mode", args[1] if len(args) > 1 else VStr("r"))
    if isinstance(args[0], VFileName) or not (isinstance(mode, VStr) and ("w" in mode.s or "a" in mode.s or "+" in mode.s)):
        raise OutOfSubset(f"line {line}: open() of an input file")
    outs = outfile_new(eng, st, args, kwargs, line)
    buf = kwargs.get("buffering", args[2] if len(args) > 2 else None)
    unbuffered = isinstance(buf, VInt) and smt.conc_int(buf.t) == 0 and "b" in mode.s
    for st2, oc in outs:
        st2.objs[oc.value.oid]["buffered"] = VBool(not unbuffered)
    return outs


MODELS["io.BufferedWriter"] = buffered_wrap
MODELS["io.BufferedRandom"] = buffered_wrap
MODELS["builtins.open"] = builtin_open
MODELS["io.open"] = builtin_open


@model("OutFile.write")
def out_write(eng, st, args, kwargs, line):
    eng.assume_tag("A-IO")
    f = st.objs[args[0].oid]
    f["hdr_after_data"] = VBool(z3.Or(eng.to_bool(f["hdr_after_data"]), f["nbytes"].t > 0))
    f["hdr_writes"] = VInt(f["hdr_writes"].t + 1)
    return val(st, VInt(smt.fresh("nwritten")))


@model("OutFile.seek", "OutFile.truncate")
def out_seek(eng, st, args, kwargs, line):
    f = st.objs[args[0].oid]
    f["seeks"] = VInt(f["seeks"].t + 1)
    return val(st, VInt(smt.fresh("pos")))


@model("OutFile.close")
def out_close(eng, st, args, kwargs, line):
    st.objs[args[0].oid]["closed"] = VBool(True)
    return val(st, NONE)


@model("OutFile.tell")
def out_tell(eng, st, args, kwargs, line):
    return val(st, VInt(smt.fresh("pos")))


@model("arrmethod.tofile")
def arr_tofile(eng, st, args, kwargs, line):
    """ndarray.tofile(f): appends arr.size * arr.itemsize bytes at the descriptor position (A-NP, A-IO)."""
    eng.assume_tag("A-NP")
    eng.assume_tag("A-IO")
    a, fo = args[0], args[1]
    if isinstance(fo, (VStr, VOpaque)):
        # ndarray.tofile(<file name>): numpy creates/truncates the file and writes the whole array to it - modelled as a
        # fresh output file whose ghost is kept in the state (spec function named_out())
        (st_, oc_), = outfile_new(eng, st, [fo, VStr("wb")], {}, line)
        fo = oc_.value
        st.ghost["named_out"] = fo
        st.ghost["named_out_count"] = st.ghost.get("named_out_count", 0) + 1
    if not (isinstance(fo, VObj) and fo.cls == "OutFile"):
        raise OutOfSubset(f"line {line}: tofile target {fo!r}")
    if not isinstance(a, VArr):
        raise OutOfSubset(f"line {line}: tofile of {a!r}")
    f = st.objs[fo.oid]
    dt = st.hmeta[a.obj].get("dtype")
    if dt not in ITEMSIZE:
        raise OutOfSubset(f"line {line}: tofile of an array of unknown dtype")
    isz = ITEMSIZE[dt]
    f["nbytes"] = VInt(smt.som(f["nbytes"].t + isz * a.n))
    f["ebits"] = VInt(z3.If(f["ebits"].t == 0, z3.IntVal(8 * isz), z3.If(f["ebits"].t == 8 * isz, f["ebits"].t, z3.IntVal(-1))))
    f["last_dtype"] = VStr(dt)
    # elements appended (as numbers)
    cl = st.objs[f["elems"].oid]
    old = st.heap[cl["obj"]]
    n = cl["n"].t
    j = z3.Int("j!tf")
    el = z3.Select(st.heap[a.obj], eng.arr_index_term(a, j - n))
    kind = st.hmeta[a.obj]["kind"]
    if kind == "bv8":
        el = z3.ToReal(z3.BV2Int(el, False))
    elif kind == "int":
        el = z3.ToReal(el)
    elif kind == "bool":
        el = z3.If(el, z3.RealVal(1), z3.RealVal(0))
    st.heap[cl["obj"]] = z3.Lambda([j], z3.If(j < n, z3.Select(old, j), el))
    cl["n"] = VInt(smt.som(n + a.n))
    cl["fresh"] = False
    return val(st, NONE)
