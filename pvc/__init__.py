"""pvc - Python verification conditions: contract-based deductive verification of /repo.

The verified text is the source of /repo as parsed at check time (stdlib ``ast``).
Contracts are sidecars (``/verif/contracts``); obligations are discharged by z3 / cvc5.
"""
