"""Second back end for polynomial / rational-function identities (C10): normal-form expansion with sympy.

The *terms* come from the symbolic execution of the real function body (z3 terms); only the decision
"this rational function is identically zero" is delegated to sympy's expansion/cancellation."""
from __future__ import annotations

import sympy as sp
import z3


def to_sympy(t, syms):
    if z3.is_int_value(t):
        return sp.Integer(t.as_long())
    if z3.is_rational_value(t):
        return sp.Rational(t.numerator_as_long(), t.denominator_as_long())
    if z3.is_const(t) and t.decl().kind() == z3.Z3_OP_UNINTERPRETED:
        return syms.setdefault(str(t), sp.Symbol(str(t).replace("!", "_")))
    k = t.decl().kind()
    if k == z3.Z3_OP_SELECT or k == z3.Z3_OP_UNINTERPRETED:
        # array element / uninterpreted application: an opaque symbol (same term, same symbol)
        key = t.sexpr()
        return syms.setdefault(key, sp.Symbol("t%d" % len(syms)))
    if k == z3.Z3_OP_ITE:
        # typed-store range check (value if it fits the dtype, wrapped otherwise): the in-range branch, under the
        # stated magnitude bound (counts below 2^31)
        syms["__assumed_in_range__"] = True
        return to_sympy(t.arg(1), syms)
    ch = [to_sympy(c, syms) for c in t.children()]
    if k == z3.Z3_OP_TO_REAL or k == z3.Z3_OP_TO_INT:
        return ch[0]
    if k == z3.Z3_OP_ADD:
        return sp.Add(*ch)
    if k == z3.Z3_OP_SUB:
        r = ch[0]
        for c in ch[1:]:
            r = r - c
        return r
    if k == z3.Z3_OP_UMINUS:
        return -ch[0]
    if k == z3.Z3_OP_MUL:
        return sp.Mul(*ch)
    if k in (z3.Z3_OP_DIV, z3.Z3_OP_IDIV):
        return ch[0] / ch[1]
    if k == z3.Z3_OP_POWER:
        return ch[0] ** ch[1]
    raise ValueError(f"not a polynomial term: {t.decl().name()}")


def is_zero(expr):
    e = sp.together(sp.expand(expr))
    num, _den = sp.fraction(e)
    return sp.expand(num) == 0
