"""Symbolic values of the verified Python subset."""
from __future__ import annotations

import z3

INT = z3.IntSort()
REAL = z3.RealSort()
BOOL = z3.BoolSort()
BV8 = z3.BitVecSort(8)

ELEM_SORT = {"bv8": BV8, "int": INT, "real": REAL, "bool": BOOL}
# numpy/numba dtype -> modelling kind (bv8 only when the contract asks for bit-level reasoning)
DTYPE_KIND = {"u1": "int", "u2": "int", "i4": "int", "i8": "int", "f4": "real", "f8": "real", "b1": "bool",
              "c8": "real"}
DTYPE_RANGE = {"u1": (0, 255), "u2": (0, 65535), "i4": (-2**31, 2**31 - 1), "i8": (-2**63, 2**63 - 1)}


class V:
    pass


class VInt(V):
    __slots__ = ("t",)

    def __init__(self, t):
        self.t = z3.IntVal(t) if isinstance(t, int) else t

    def __repr__(self):
        return f"VInt({self.t})"


class VReal(V):
    __slots__ = ("t",)

    def __init__(self, t):
        if isinstance(t, (int, float)):
            from fractions import Fraction
            fr = Fraction(str(t)) if isinstance(t, float) else Fraction(t)
            t = z3.RealVal(f"{fr.numerator}/{fr.denominator}")
        self.t = t

    def __repr__(self):
        return f"VReal({self.t})"


class VBool(V):
    __slots__ = ("t",)

    def __init__(self, t):
        self.t = z3.BoolVal(t) if isinstance(t, bool) else t

    def __repr__(self):
        return f"VBool({self.t})"


class VBV(V):
    """Bit-vector value (numba machine integer meeting a bit operator)."""
    __slots__ = ("t",)

    def __init__(self, t):
        self.t = t

    @property
    def width(self):
        return self.t.size()

    def __repr__(self):
        return f"VBV({self.t})"


class VNone(V):
    def __repr__(self):
        return "VNone"


NONE = VNone()


class VStr(V):
    __slots__ = ("s", "t")

    def __init__(self, s=None, t=None):
        self.s = s  # concrete python str or None
        self.t = t  # z3 String term when symbolic

    def __repr__(self):
        return f"VStr({self.s!r})" if self.s is not None else f"VStr({self.t})"


class VTuple(V):
    __slots__ = ("items",)

    def __init__(self, items):
        self.items = list(items)

    def __repr__(self):
        return f"VTuple({self.items})"


class _Clock:
    """Global logical clock: containers are stamped at creation, states at every fork. A container older than the
    latest fork of the state that mutates it may be shared with a sibling path and is copied first (copy-on-write)."""
    t = 0

    @classmethod
    def tick(cls):
        cls.t += 1
        return cls.t


class VList(V):
    """Python list with a concrete number of elements (mutable, by reference)."""
    __slots__ = ("items", "born")

    def __init__(self, items):
        self.items = list(items)
        self.born = _Clock.tick()


class VSeq(V):
    """Immutable sequence of symbolic length: elem(idx_term) -> V."""
    __slots__ = ("n", "elem", "last")

    def __init__(self, n, elem, last=None):
        self.n = n
        self.elem = elem
        self.last = last  # (n0, prefix elem fn, appended item): lets a loop treat the appended item separately


class VRange(V):
    __slots__ = ("lo", "hi", "step", "par")

    def __init__(self, lo, hi, step, par=False):
        self.lo, self.hi, self.step, self.par = lo, hi, step, par


class VArr(V):
    """1-D view of a heap object: element k is heap[obj][off + stride*k], k in [0, n)."""
    __slots__ = ("obj", "off", "stride", "n")

    def __init__(self, obj, off, stride, n):
        self.obj, self.off, self.stride, self.n = obj, off, stride, n

    def __repr__(self):
        return f"VArr({self.obj}, off={self.off}, stride={self.stride}, n={self.n})"


class VArr2(V):
    """2-D view: element (i,j) is heap[obj][off + s0*i + s1*j]."""
    __slots__ = ("obj", "off", "s0", "s1", "n0", "n1")

    def __init__(self, obj, off, s0, s1, n0, n1):
        self.obj, self.off, self.s0, self.s1, self.n0, self.n1 = obj, off, s0, s1, n0, n1


class VRecArr(V):
    """numpy structured array modelled as a record of 1-D arrays (one per field)."""
    __slots__ = ("fields", "n")

    def __init__(self, fields, n):
        self.fields = fields  # name -> VArr
        self.n = n


class VRecRow(V):
    __slots__ = ("rec", "idx")

    def __init__(self, rec, idx):
        self.rec, self.idx = rec, idx


class VObj(V):
    """Record (self, header, ...): fields live in State.objs[oid]."""
    __slots__ = ("oid", "cls", "file")

    def __init__(self, oid, cls, file=None):
        self.oid, self.cls, self.file = oid, cls, file

    def __repr__(self):
        return f"VObj({self.cls}#{self.oid})"


class VDict(V):
    """dict with concrete string keys (mutable, by reference)."""
    __slots__ = ("d", "born")

    def __init__(self, d):
        self.d = dict(d)
        self.born = _Clock.tick()


class VFunc(V):
    """Reference to a function: repo function key, bound method, or a model."""
    __slots__ = ("kind", "ref", "self_")

    def __init__(self, kind, ref, self_=None):
        self.kind, self.ref, self.self_ = kind, ref, self_

    def __repr__(self):
        return f"VFunc({self.kind}:{self.ref})"


class VMod(V):
    __slots__ = ("kind", "ref")

    def __init__(self, kind, ref):
        self.kind, self.ref = kind, ref  # ("mod", relfile) | ("ext", dotted)

    def __repr__(self):
        return f"VMod({self.kind}:{self.ref})"


class VDtype(V):
    __slots__ = ("name",)

    def __init__(self, name):
        self.name = name  # 'u1','f4',...

    def __repr__(self):
        return f"VDtype({self.name})"


class VOpaque(V):
    """A value the proof never inspects (progress-bar captions, loggers)."""
    __slots__ = ("what",)

    def __init__(self, what=""):
        self.what = what


class VPoison(V):
    """Scalar carried across prange iterations (read => private@ obligation fails)."""
    __slots__ = ("name",)

    def __init__(self, name):
        self.name = name
