"""Extractor: reads the real source of /repo on every run.

Dropped (and only dropped): docstrings, type annotations (read as hints only), the njit
flags cache/fastmath/nogil (``parallel`` and ``locals`` and signature strings are parsed),
``logger.*(...)`` calls, ``track(iterable, ...)`` (identity on its first argument).
"""
from __future__ import annotations

import ast
import hashlib
import os
from dataclasses import dataclass, field

REPO = os.environ.get("PVC_REPO", "/repo")


class OutOfSubset(Exception):
    """The function uses a construct the generator does not translate (never a violation)."""


class ContractMismatch(Exception):
    """A contract no longer attaches to the code (function or loop missing/renamed)."""


@dataclass
class FuncInfo:
    file: str
    qualname: str
    node: ast.FunctionDef
    cls: str | None
    njit: bool = False
    parallel: bool = False
    signatures: list = field(default_factory=list)
    locals_: dict = field(default_factory=dict)
    is_property: bool = False
    is_generator: bool = False
    alias_of: str | None = None  # e.g. downsample_1d_mean_parallel -> downsample_1d_mean

    @property
    def key(self) -> str:
        return f"{self.file}::{self.qualname}"

    @property
    def lines(self):
        return (self.node.lineno, self.node.end_lineno)

    def ast_hash(self) -> str:
        body = _strip_doc(self.node.body)
        txt = "\n".join(ast.dump(s, annotate_fields=False, include_attributes=False) for s in body)
        args = ast.dump(self.node.args, annotate_fields=False)
        return hashlib.sha256((args + txt).encode()).hexdigest()[:16]


def _strip_doc(body):
    if body and isinstance(body[0], ast.Expr) and isinstance(body[0].value, ast.Constant) \
            and isinstance(body[0].value.value, str):
        return body[1:]
    return body


@dataclass
class ModInfo:
    file: str
    tree: ast.Module
    imports: dict  # local name -> ("mod", relfile) | ("sym", relfile, name) | ("ext", dotted)
    funcs: dict  # qualname -> FuncInfo
    classes: dict  # name -> (ClassDef, [base names])
    consts: dict  # module-level NAME -> ast expr
    text: str


class Source:
    def __init__(self, repo: str = REPO):
        self.repo = repo
        self._mods: dict[str, ModInfo] = {}

    # ---------------------------------------------------------------- modules
    def _resolve_module(self, dotted: str):
        p = dotted.replace(".", "/")
        for cand in (p + ".py", p + "/__init__.py"):
            if os.path.exists(os.path.join(self.repo, cand)):
                return cand
        return None

    def module(self, relfile: str) -> ModInfo:
        if relfile in self._mods:
            return self._mods[relfile]
        if relfile.startswith("verif:"):
            path = os.path.join(os.path.dirname(os.path.dirname(os.path.abspath(__file__))), relfile[6:])
        else:
            path = os.path.join(self.repo, relfile)
        with open(path) as fh:
            text = fh.read()
        tree = ast.parse(text, filename=path)
        imports, funcs, classes, consts = {}, {}, {}, {}

        def scan_imports(stmts):
            for st in stmts:
                if isinstance(st, ast.Import):
                    for a in st.names:
                        local = a.asname or a.name.split(".")[0]
                        rf = self._resolve_module(a.name)
                        if rf and a.asname:
                            imports[local] = ("mod", rf)
                        else:
                            imports[local] = ("ext", a.name if a.asname else a.name.split(".")[0])
                elif isinstance(st, ast.ImportFrom) and st.module:
                    for a in st.names:
                        local = a.asname or a.name
                        sub = self._resolve_module(st.module + "." + a.name)
                        if sub:
                            imports[local] = ("mod", sub)
                            continue
                        rf = self._resolve_module(st.module)
                        if rf:
                            imports[local] = ("sym", rf, a.name)
                        else:
                            imports[local] = ("ext", st.module + "." + a.name)
                elif isinstance(st, ast.If):
                    scan_imports(st.body)
                    scan_imports(st.orelse)

        scan_imports(tree.body)

        def add_func(node, cls):
            qn = f"{cls}.{node.name}" if cls else node.name
            fi = FuncInfo(relfile, qn, node, cls)
            for d in node.decorator_list:
                dn = d.func if isinstance(d, ast.Call) else d
                name = dn.id if isinstance(dn, ast.Name) else (dn.attr if isinstance(dn, ast.Attribute) else None)
                if name == "njit":
                    fi.njit = True
                    if isinstance(d, ast.Call):
                        _parse_njit_call(d, fi)
                elif name == "property":
                    fi.is_property = True
            fi.is_generator = any(isinstance(n, (ast.Yield, ast.YieldFrom)) for n in ast.walk(node))
            if qn in funcs and fi.is_property is False and funcs[qn].is_property:
                return  # keep the getter; setters are not modelled
            funcs[qn] = fi

        for st in tree.body:
            if isinstance(st, ast.FunctionDef):
                add_func(st, None)
            elif isinstance(st, ast.ClassDef):
                bases = []
                for b in st.bases:
                    if isinstance(b, ast.Name):
                        bases.append(b.id)
                    elif isinstance(b, ast.Attribute):
                        bases.append(b.attr)
                classes[st.name] = (st, bases)
                for s2 in st.body:
                    if isinstance(s2, ast.FunctionDef):
                        add_func(s2, st.name)
            elif isinstance(st, ast.Assign) and len(st.targets) == 1 and isinstance(st.targets[0], ast.Name):
                name = st.targets[0].id
                consts[name] = st.value
                # X = njit(f.py_func, parallel=True, ...)
                v = st.value
                if isinstance(v, ast.Call) and isinstance(v.func, ast.Name) and v.func.id == "njit" and v.args:
                    a0 = v.args[0]
                    if isinstance(a0, ast.Attribute) and a0.attr == "py_func" and isinstance(a0.value, ast.Name) \
                            and a0.value.id in funcs:
                        base = funcs[a0.value.id]
                        fi = FuncInfo(relfile, name, base.node, None, njit=True, alias_of=base.qualname)
                        _parse_njit_call(v, fi, skip_first=True)
                        funcs[name] = fi
            elif isinstance(st, ast.AnnAssign) and isinstance(st.target, ast.Name) and st.value is not None:
                consts[st.target.id] = st.value
        mi = ModInfo(relfile, tree, imports, funcs, classes, consts, text)
        self._mods[relfile] = mi
        return mi

    # ---------------------------------------------------------------- lookups
    def func(self, key: str) -> FuncInfo:
        relfile, qn = key.split("#")[0].split("::")
        mi = self.module(relfile)
        if qn not in mi.funcs:
            raise ContractMismatch(f"function {key} not found in current source")
        return mi.funcs[qn]

    def find_method(self, relfile: str, cls: str, name: str):
        """Resolve a method through the class hierarchy (single-file or imported bases)."""
        seen = set()
        todo = [(relfile, cls)]
        while todo:
            rf, c = todo.pop(0)
            if (rf, c) in seen:
                continue
            seen.add((rf, c))
            mi = self.module(rf)
            if f"{c}.{name}" in mi.funcs:
                return mi.funcs[f"{c}.{name}"]
            if c in mi.classes:
                for b in mi.classes[c][1]:
                    if b in mi.classes:
                        todo.append((rf, b))
                    elif b in mi.imports and mi.imports[b][0] == "sym":
                        todo.append((mi.imports[b][1], mi.imports[b][2]))
        return None

    def class_file(self, relfile: str, cls: str):
        mi = self.module(relfile)
        if cls in mi.classes:
            return relfile
        if cls in mi.imports and mi.imports[cls][0] == "sym":
            return mi.imports[cls][1]
        return None


def _parse_njit_call(call: ast.Call, fi: FuncInfo, skip_first=False):
    args = call.args[1:] if skip_first else call.args
    for a in args:
        if isinstance(a, ast.Constant) and isinstance(a.value, str):
            fi.signatures.append(a.value)
        elif isinstance(a, ast.List):
            for e in a.elts:
                if isinstance(e, ast.Constant) and isinstance(e.value, str):
                    fi.signatures.append(e.value)
    for kw in call.keywords:
        if kw.arg == "parallel" and isinstance(kw.value, ast.Constant):
            fi.parallel = bool(kw.value.value)
        elif kw.arg == "locals" and isinstance(kw.value, ast.Dict):
            for k, v in zip(kw.value.keys, kw.value.values):
                if isinstance(k, ast.Constant):
                    tname = v.attr if isinstance(v, ast.Attribute) else (v.id if isinstance(v, ast.Name) else "?")
                    fi.locals_[k.value] = tname


def parse_signature(sig: str):
    """'void(u1[::1], f4[:], i8)' -> (ret, [('u1',1), ('f4',1), ('i8',0)])."""
    ret, rest = sig.split("(", 1)
    rest = rest.rsplit(")", 1)[0]
    out = []
    depth = 0
    cur = ""
    for ch in rest:
        if ch == "[":
            depth += 1
        elif ch == "]":
            depth -= 1
        if ch == "," and depth == 0:
            out.append(cur.strip())
            cur = ""
        else:
            cur += ch
    if cur.strip():
        out.append(cur.strip())
    res = []
    for a in out:
        if "[" in a:
            base, dims = a.split("[", 1)
            nd = dims.count(":") - dims.count("::") if dims else 0
            nd = dims.rstrip("]").count(",") + 1
            res.append((base.strip(), nd))
        else:
            res.append((a, 0))
    return ret.strip(), res
