"""Call-site (sample-level) view of the writer: Header.prep_outfile / FileWriter.cwrite / close.

These two are *derived* contracts: the bodies are verified at the byte level in contracts/writer.py
(FileWriter.cwrite#bytes: width conformance and packed fields; Header.prep_outfile#body: header written once,
append mode), and the C03 inverse lemmas give "samples read back == samples written" for in-range values.
At the call sites of the streaming writers the file is described by
  usamples  the samples appended so far (in order), nwrites, and the typestate counters of the OutFile ghost;
  out_header the Header record the file was prepared with (used by C08).
Caller obligations generated here (they are what makes the output well formed at its declared depth):
  depth 1/2/4: array dtype uint8, a whole number of bytes per call, values < 2^nbits
  depth 8/16/32: values are converted to the declared sample type (exact for uint8->uint16/float32, uint16->float32)
"""
from __future__ import annotations

import z3

from . import smt
from .hdrmodel import new_header
from .iomodel import chunklist_new, outfile_new
from .models import MODELS, val
from .source import OutOfSubset
from .state import Outcome
from .values import *  # noqa: F403

DEPTH_DTYPE = {1: "u1", 2: "u1", 4: "u1", 8: "u1", 16: "u2", 32: "f4"}
EXACT = {("u1", "u1"), ("u1", "u2"), ("u1", "f4"), ("u2", "u2"), ("u2", "f4"), ("f4", "f4")}


def prep_outfile(eng, st, args, kwargs, line):
    self_v = args[0]
    filename = args[1] if len(args) > 1 else kwargs.get("filename")
    updates = kwargs.get("updates", NONE)
    nbits = kwargs.get("nbits", NONE)
    hdr = st.objs[self_v.oid]
    if isinstance(nbits, VNone):
        nbits = hdr["nbits"]
    upd = dict(updates.d) if isinstance(updates, VDict) else {}
    if not isinstance(updates, (VDict, VNone)):
        raise OutOfSubset(f"line {line}: prep_outfile updates {updates!r}")
    cb = smt.conc_bool(smt.simp(eng.to_int(nbits) != eng.to_int(hdr["nbits"])))
    if cb is None:
        # `if nbits != self.nbits: updates["nbits"] = nbits` : either way the new header's nbits is `nbits`
        upd["nbits"] = nbits
    elif cb:
        upd["nbits"] = nbits
    (st2, oc), = new_header(eng, st, [self_v, VDict(upd)], {}, line)
    out_hdr = oc.value
    (st3, oc2), = outfile_new(eng, st, [VStr("out"), VStr("w+")], {}, line)
    fo = oc2.value
    st.objs[fo.oid]["hdr_writes"] = VInt(1)
    us = chunklist_new(eng, st, "real", None)
    st.objs[us.oid]["fresh"] = False
    bits = VObj(eng.new_oid(st, {"nbits": nbits}), "BitsInfo", "sigpyproc/io/bits.py")
    w = VObj(eng.new_oid(st, {"file_obj": fo, "bitsinfo": bits, "rescale": kwargs.get("rescale", VBool(False)),
                              "usamples": us, "nwrites": VInt(0), "out_header": out_hdr, "ifile_cur": VInt(0),
                              "closed": VBool(False), "fname": filename if filename is not None else NONE}),
             "FileWriter", "sigpyproc/io/fileio.py")
    st.ghost.setdefault("writers", [])
    st.ghost["writers"] = st.ghost["writers"] + [w]
    eng.assume_tag("DERIVED:Header.prep_outfile (body verified as prep_outfile#body)")
    return val(st, w)


MODELS["repo:sigpyproc/header.py::Header.prep_outfile"] = prep_outfile


def cwrite(eng, st, args, kwargs, line):
    w, a = args[0], args[1]
    f = st.objs[w.oid]
    if not isinstance(a, VArr):
        raise OutOfSubset(f"line {line}: cwrite of {a!r}")
    nb = smt.conc_int(eng.to_int(st.objs[f["bitsinfo"].oid]["nbits"]))
    if nb is None:
        raise OutOfSubset(f"line {line}: cwrite with a symbolic output depth")
    resc = smt.conc_bool(eng.to_bool(f["rescale"]))
    if resc is not False:
        raise OutOfSubset(f"line {line}: cwrite with rescale (quantisation) is outside the sample-level contract")
    dt = st.hmeta[a.obj].get("dtype")
    if dt is None:
        raise OutOfSubset(f"line {line}: cwrite of an array of unknown dtype")
    eng.assume_tag("DERIVED:FileWriter.cwrite (body verified as cwrite#bytes)")
    j = z3.Int("j!cw")
    el = z3.Select(st.heap[a.obj], eng.arr_index_term(a, j))
    kind = st.hmeta[a.obj]["kind"]
    elr = el if kind == "real" else (z3.ToReal(el) if kind == "int" else z3.ToReal(z3.BV2Int(el, False)))
    if nb < 8:
        if dt != "u1":
            # pack() rejects non-uint8 input: refusal, nothing written
            s2 = st
            return [(s2, Outcome("raise", exc="ValueError", line=line))]
        f8 = 8 // nb
        q, r = eng.int_divmod(st, a.n, z3.IntVal(f8), line)
        eng.oblig(st, f"whole-bytes@{line}", r == 0, line, label=f"{nb}-bit block is a whole number of bytes")
        rng = z3.ForAll([j], z3.Implies(z3.And(0 <= j, j < a.n), z3.And(elr >= 0, elr < (1 << nb))))
        extra_p = [st.ghost["xs_range"]] if st.ghost.get("xs_range") is not None else []
        st.pc.extend(extra_p)
        eng.oblig(st, f"in-range@{line}", rng, line, label=f"values fit {nb} bits")
        if extra_p:
            del st.pc[-len(extra_p):]
        conv = elr
    else:
        dd = DEPTH_DTYPE[nb]
        if (dt, dd) in EXACT:
            conv = elr
        else:
            # converted to the declared sample type: value unspecified here unless representable
            conv = eng.uf(f"cast_{dt}_{dd}", [elr], REAL)
    us = st.objs[f["usamples"].oid]
    old = st.heap[us["obj"]]
    n = us["n"].t
    jj = z3.Int("j!us")
    conv_j = z3.substitute(conv, (j, jj - n))
    st.heap[us["obj"]] = z3.Lambda([jj], z3.If(jj < n, z3.Select(old, jj), conv_j))
    us["n"] = VInt(smt.som(n + a.n))
    f["nwrites"] = VInt(f["nwrites"].t + 1)
    fo = st.objs[f["file_obj"].oid]
    fo["nbytes"] = VInt(smt.som(fo["nbytes"].t + a.n * nb / 8)) if nb >= 8 else VInt(smt.som(fo["nbytes"].t + q))
    return val(st, NONE)


MODELS["repo:sigpyproc/io/fileio.py::FileWriter.cwrite"] = cwrite


def _same_name(a, b):
    """Two file-name values are the same name: the same symbolic value, the same opaque parameter, or equal strings."""
    if a is None or b is None:
        return False
    if a is b:
        return True
    if isinstance(a, VOpaque) and isinstance(b, VOpaque):
        return a.what == b.what and a.what != ""
    if isinstance(a, VStr) and isinstance(b, VStr):
        return a.s is not None and a.s == b.s
    return False


def edit_header(eng, st, args, kwargs, line):
    """sigproc.edit_header(filename, key, value) rewrites header bytes of an existing file in place (seek + write). On a
    file this function has prepared for output (same file-name value) that is a header write after the header - and
    after the data when blocks have been written - plus a repositioning: exactly what the append-only typestate forbids."""
    args = [a for a in args if a is not None]  # plain function: no receiver
    fname = args[0] if args else kwargs.get("filename")
    hit = False
    for w in st.ghost.get("writers", []):
        f = st.objs[w.oid]
        if _same_name(f.get("fname"), fname):
            fo = st.objs[f["file_obj"].oid]
            fo["hdr_after_data"] = VBool(z3.Or(eng.to_bool(fo["hdr_after_data"]), fo["nbytes"].t > 0))
            fo["hdr_writes"] = VInt(fo["hdr_writes"].t + 1)
            fo["seeks"] = VInt(fo["seeks"].t + 1)
            hit = True
    if not hit:
        raise OutOfSubset(f"line {line}: edit_header of a file this function did not prepare")
    eng.assume_tag("A-IO")
    return val(st, NONE)


MODELS["repo:sigpyproc/io/sigproc.py::edit_header"] = edit_header


def wclose(eng, st, args, kwargs, line):
    st.objs[args[0].oid]["closed"] = VBool(True)
    return val(st, NONE)


MODELS["repo:sigpyproc/io/fileio.py::FileBase.close"] = wclose


def bitsinfo_new(eng, st, args, kwargs, line):
    """attrs-generated BitsInfo(nbits): validator in_(nbits_to_dtype) raises ValueError (A-ATTRS)."""
    eng.assume_tag("A-ATTRS")
    nb = args[0] if args else kwargs.get("nbits")
    t = eng.to_int(nb, line)
    ok = z3.Or([t == k for k in (1, 2, 4, 8, 16, 32)])
    out = []
    bad = st.fork()
    bad.assume(z3.Not(ok))
    if eng.feasible(bad):
        out.append((bad, Outcome("raise", exc="ValueError", line=line)))
    st.assume(ok)
    obj = VObj(eng.new_oid(st, {"nbits": nb, "digi_sigma": VReal(smt.fresh("sigma", REAL))}), "BitsInfo",
               "sigpyproc/io/bits.py")
    return [(st, Outcome("value", obj))] + out


MODELS["class:sigpyproc/io/bits.py::BitsInfo"] = bitsinfo_new
