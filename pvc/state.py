"""Symbolic state, obligations and path outcomes."""
from __future__ import annotations

import copy
from dataclasses import dataclass, field


@dataclass
class Obligation:
    name: str
    kind: str
    premises: list
    goal: object
    func: str = ""
    line: int = 0
    cls: str = "P"  # 'P' property/safety clause, 'H' helper clause, 'C' cover (must be SAT)
    label: str = ""
    params: dict = field(default_factory=dict)  # name -> symbolic value (for model projection)
    case: str = ""
    extra: dict = field(default_factory=dict)


class Outcome:
    __slots__ = ("kind", "value", "exc", "line")

    def __init__(self, kind, value=None, exc=None, line=0):
        self.kind, self.value, self.exc, self.line = kind, value, exc, line

    def __repr__(self):
        return f"Outcome({self.kind},{self.value},{self.exc})"


NORMAL = "normal"


class State:
    def __init__(self):
        self.env = {}
        self.heap = {}  # obj -> z3 array term
        self.hmeta = {}  # obj -> dict(kind, dtype, size)
        self.pc = []
        self.objs = {}  # oid -> {field: V}
        self.ghost = {}
        self.acc = None  # access log for race analysis: list of (mode, obj, idxterm, guard list)
        self.poison_reads = None
        self.fork_epoch = 0  # logical time of the latest fork in this state's history (see values._Clock)

    def fork(self):
        s = State.__new__(State)
        s.env = dict(self.env)
        s.heap = dict(self.heap)
        s.hmeta = self.hmeta  # shared: objects are only ever added
        s.pc = list(self.pc)
        s.objs = {k: dict(v) for k, v in self.objs.items()}
        s.ghost = dict(self.ghost)
        s.acc = self.acc  # shared log (analysis collects over all paths)
        s.poison_reads = self.poison_reads
        from .values import _Clock
        s.fork_epoch = self.fork_epoch = _Clock.tick()
        return s

    def assume(self, f):
        self.pc.append(f)
