"""Calls: builtins, library models, repo functions through contracts or inlining; spec language."""
from __future__ import annotations

import ast
import os

import z3

from . import smt
from .contract import (Arr, Arr2, Bool, Chunks, Const, Contract, Int, Obj, Opaque, Opt, Raw, Real, RecArr, SeqOf, Str, Tup, Callback)
from .source import ContractMismatch, OutOfSubset, _strip_doc
from .state import NORMAL, Outcome, State
from .values import *  # noqa: F403
from .values import ELEM_SORT

_spec_cache = {}


def parse_spec(expr: str):
    if expr not in _spec_cache:
        _spec_cache[expr] = ast.parse(expr.strip(), mode="eval").body
    return _spec_cache[expr]


class CallMixin:
    # ------------------------------------------------------------------ spec language
    def spec_val(self, expr, st: State, env=None):
        node = parse_spec(expr) if isinstance(expr, str) else expr
        self.spec_depth += 1
        saved_env = st.env
        if env is not None:
            st.env = env
        try:
            return self.ev(node, st)
        finally:
            st.env = saved_env
            self.spec_depth -= 1

    def spec_bool(self, expr, st: State, env=None):
        n0 = len(st.pc)
        v = self.spec_val(expr, st, env)
        t = self.to_bool(v)
        new = st.pc[n0:]
        if new:
            # definitional facts for witnesses/unfoldings introduced by the clause stay in the state
            pass
        return t

    def ev_Call(self, node, st):
        """Call inside an expression: must have exactly one (value) outcome."""
        if self.spec_depth:
            r = self.spec_call(node, st)
            if r is not None:
                return r
        paths = self.call_paths(node, st, nested=True)
        vals = [(s2, oc) for s2, oc in paths if oc.kind == "value"]
        if len(paths) != 1 or len(vals) != 1 or vals[0][0] is not st:
            raise OutOfSubset(f"line {node.lineno}: call with several outcomes nested in an expression")
        return vals[0][1].value

    def spec_call(self, node, st):
        f = node.func
        name = f.id if isinstance(f, ast.Name) else None
        line = getattr(node, "lineno", 0)
        if name == "forall" or name == "exists":
            vars_ = []
            args = list(node.args)
            v = args[0]
            if not isinstance(v, ast.Name):
                raise OutOfSubset("forall(var, lo, hi, body)")
            c = smt.fresh(v.id)
            lo = self.to_int(self.ev(args[1], st))
            hi = self.to_int(self.ev(args[2], st))
            saved = st.env.get(v.id)
            st.env[v.id] = VInt(c)
            n0 = len(st.pc)
            self.under_binder = getattr(self, "under_binder", 0) + 1
            try:
                body = self.to_bool(self.ev(args[3], st))
            finally:
                self.under_binder -= 1
                if saved is None:
                    st.env.pop(v.id, None)
                else:
                    st.env[v.id] = saved
            new = st.pc[n0:]
            del st.pc[n0:]
            # definitional facts that do not mention the bound variable (division witnesses of outer terms, the
            # fdiv/fmod axiom) hold outside the binder as well: keep them unquantified
            free = [f for f in new if not smt.mentions(f, c)] if not os.environ.get('PVC_NO_HOIST') else []
            new = [f for f in new if smt.mentions(f, c)]
            for f in free:
                if not any(f is q or f.eq(q) for q in st.pc[-40:]):
                    st.pc.append(f)
            rng = z3.And(lo <= c, c < hi)
            if name == "forall":
                if new:
                    # facts that mention the bound variable (unfoldings) are quantified alongside; they are marked
                    # auxiliary: the portfolio first tries without them (a proof from fewer premises is a proof)
                    aux = z3.ForAll([c], z3.Implies(rng, z3.And(new)))
                    smt.AUX[aux.get_id()] = aux
                    st.pc.append(aux)
                return VBool(z3.ForAll([c], z3.Implies(rng, body)))
            return VBool(z3.Exists([c], z3.And(rng, *(new + [body]))))
        if name == "implies":
            a = self.to_bool(self.ev(node.args[0], st))
            if smt.conc_bool(a) is False:
                return VBool(True)
            b = self.to_bool(self.ev_under(node.args[1], st, a))
            return VBool(z3.Implies(a, b))
        if name == "iff":
            a = self.to_bool(self.ev(node.args[0], st))
            b = self.to_bool(self.ev(node.args[1], st))
            return VBool(a == b)
        if name == "old":
            if self.old is None:
                raise OutOfSubset("old() outside a postcondition")
            sub = st.fork()
            sub.heap = dict(self.old.heap)
            sub.objs = {k: dict(v) for k, v in self.old.objs.items()}
            # parameters keep their entry values
            env = dict(st.env)
            env.update(self.old.env)
            sub.env = env
            return self.ev(node.args[0], sub)
        if name == "len":
            v = self.ev(node.args[0], st)
            self._len_state = st
            return self.len_of(v, line)
        if name == "bits":  # bits(byte, shift, width) on a bv8 -> bv8
            b = self.ev(node.args[0], st)
            sh = smt.conc_int(self.to_int(self.ev(node.args[1], st)))
            w = smt.conc_int(self.to_int(self.ev(node.args[2], st)))
            if not isinstance(b, VBV) or sh is None or w is None:
                raise OutOfSubset("bits(bv8, const, const)")
            return VBV(z3.ZeroExt(8 - w, z3.Extract(sh + w - 1, sh, b.t)))
        if name == "bv":  # bv(int const) -> bv8
            c = smt.conc_int(self.to_int(self.ev(node.args[0], st)))
            return VBV(z3.BitVecVal(c, 8))
        if name == "arr":
            v = self.ev(node.args[0], st)
            if isinstance(v, VOpaqueArr):
                return v
            return VOpaqueArr(st.heap[v.obj])
        if name is not None and name.startswith("lemma_"):
            lc = self.reg.get("verif:specs/clients.py::" + name)
            if lc is None:
                raise OutOfSubset(f"unknown lemma {name}")
            # a lemma proved (by induction) for all arguments: its instance is a valid fact
            fi_l = self.src.func(lc.key)
            pn = [a.arg for a in fi_l.node.args.args]
            vals = [self.ev(a, st) for a in node.args]
            saved = st.env
            st.env = dict(zip(pn, vals))
            try:
                req = [self.spec_bool(r, st) for r in lc.requires]
                ens = [self.spec_bool(e, st) for (_l, e, _c) in lc.ensures]
            finally:
                st.env = saved
            st.assume(z3.Implies(z3.And(req) if req else z3.BoolVal(True), z3.And(ens)))
            self.assume_tag("LEMMA:" + name)
            return VBool(True)
        if name == "upd":  # upd(A, i, v): the raw array A with element i replaced by v
            A = self.ev(node.args[0], st)
            i = smt.som(self.to_int(self.ev(node.args[1], st)))
            v = self.ev(node.args[2], st)
            vt = self.to_real(v) if A.t.sort().range() == REAL else self.to_int(v)
            return VOpaqueArr(z3.Store(A.t, i, vt))
        if name == "at":  # at(A, i): element i of a raw array
            A = self.ev(node.args[0], st)
            i = smt.som(self.to_int(self.ev(node.args[1], st)))
            e = z3.Select(A.t, i)
            return VReal(e) if e.sort() == REAL else VInt(e)
        if name == "store_sum":  # store_sum(arr): instance of lemma_store_sum for the last single-element store into arr
            v = self.ev(node.args[0], st)
            h = st.heap[v.obj]
            if not z3.is_store(h):
                return VBool(True)
            lc = self.reg.get("verif:specs/clients.py::lemma_store_sum")
            if lc is None:
                raise OutOfSubset("lemma_store_sum not registered")
            h0, idx, val_ = h.arg(0), h.arg(1), h.arg(2)
            saved = st.env
            st.env = {"A": VOpaqueArr(h0), "i": VInt(idx), "v": (VReal(val_) if val_.sort() == REAL else VInt(val_)),
                      "n": VInt(smt.som(v.off + v.n))}
            try:
                req = [self.spec_bool(r, st) for r in lc.requires]
                ens = [self.spec_bool(e, st) for (_l, e, _c) in lc.ensures]
            finally:
                st.env = saved
            st.assume(z3.Implies(z3.And(req), z3.And(ens)))
            self.assume_tag("LEMMA:lemma_store_sum")
            return VBool(True)
        if name == "raw":  # raw(view, k): element k of the *underlying object* (absolute index; matches any select on it)
            v = self.ev(node.args[0], st)
            k = smt.som(self.to_int(self.ev(node.args[1], st)))
            return self.elem_wrap(z3.Select(st.heap[v.obj], k), st.hmeta[v.obj]["kind"])
        if name == "off":
            v = self.ev(node.args[0], st)
            return VInt(v.off)
        if name == "distinct":
            vs = [self.ev(a, st) for a in node.args]
            objs = [v.obj for v in vs if isinstance(v, (VArr, VArr2))]
            return VBool(len(set(objs)) == len(objs))
        if name == "same_array":
            a, b = (self.ev(x, st) for x in node.args[:2])
            return VBool(z3.And(a.n == b.n, st.heap[a.obj] == st.heap[b.obj], a.off == b.off)
                         if a.obj != b.obj else z3.And(a.n == b.n, a.off == b.off))
        if name == "unchanged":
            v = self.ev(node.args[0], st)
            if isinstance(v, VArr):
                j = smt.fresh("u")
                idx = self.arr_index_term(v, j)
                return VBool(z3.ForAll([j], z3.Implies(z3.And(0 <= j, j < v.n), z3.Select(st.heap[v.obj], idx)
                                                       == z3.Select(self.old.heap[v.obj], idx))))
            raise OutOfSubset("unchanged(array)")
        if name in ("boff", "bn") and getattr(self, "gen_specs", None):
            return VInt(self.gen_specs[name](smt.som(self.to_int(self.ev(node.args[0], st)))))
        if name == "bK" and getattr(self, "gen_specs", None):
            return VInt(self.gen_specs["bK"])
        if name == "XS":
            from .iomodel import XS_OBJ, xs_object
            xs_object(self, st)
            if node.args:
                return VReal(z3.Select(st.heap[XS_OBJ], smt.som(self.to_int(self.ev(node.args[0], st)))))
            return VOpaqueArr(st.heap[XS_OBJ])
        if name == "contents_are":
            v = self.ev(node.args[0], st)
            raw = self.ev(node.args[1], st)
            return VBool(z3.And(st.heap[v.obj] == raw.t, v.off == 0))
        if name == "fl":  # fl(x): x as computed in doubles by one rounding (relative-error model)
            x = self.to_real(self.ev(node.args[0], st))
            e = smt.fresh("eps", REAL)
            u = z3.RealVal("1/9007199254740992")
            st.assume(z3.And(-u <= e, e <= u))
            return VReal(x * (1 + e))
        if name == "is_real_array":
            v = self.ev(node.args[0], st)
            return VBool(st.hmeta[v.obj]["kind"] == "real")
        if name == "is_none":
            v = self.ev(node.args[0], st)
            return VBool(isinstance(v, VNone))
        if name == "zerod":  # ghost: is this array value 0-dimensional (np.squeeze of one element)?
            v = self.ev(node.args[0], st)
            f = st.hmeta[v.obj].get("zerod_if") if isinstance(v, VArr) else None
            return VBool(f if f is not None else z3.BoolVal(False))
        if name == "is_real":
            v = self.ev(node.args[0], st)
            return VBool(isinstance(v, (VReal, VInt)))
        if name == "real":
            return VReal(self.to_real(self.ev(node.args[0], st)))
        if name == "named_out":  # ghost of the file most recently written by ndarray.tofile(<file name>)
            fo = st.ghost.get("named_out")
            if fo is None:
                raise OutOfSubset("named_out(): no array was written to a named file on this path")
            return fo
        if name == "named_out_count":
            return VInt(st.ghost.get("named_out_count", 0))
        if name and name.startswith("cast_") and len(node.args) == 1:
            # cast_<from>_<to>(x): the C cast the writer applies when the array dtype differs from the file's sample type
            # (the same uninterpreted function as pvc/wrmodel.py::cwrite uses; deterministic, otherwise unspecified)
            return VReal(self.uf(name, [self.to_real(self.ev(node.args[0], st))], REAL))
        if name in self.specs:
            args = [self.ev(a, st) for a in node.args]
            return self.specs[name].apply(self, st, args, line)
        return None

    def cur_state_objs(self, v):
        return self._len_state.objs[v.oid]

    def len_of(self, v, line=0):
        if isinstance(v, VArr):
            return VInt(v.n)
        if isinstance(v, VArr2):
            return VInt(v.n0)
        if isinstance(v, (VList, VTuple)):
            return VInt(len(v.items))
        if isinstance(v, VSeq):
            return VInt(v.n)
        if isinstance(v, VRecArr):
            return VInt(v.n)
        if isinstance(v, VDict):
            return VInt(len(v.d))
        if isinstance(v, VStr):
            return VInt(len(v.s)) if v.s is not None else VInt(z3.Length(v.t))
        if isinstance(v, VOpaqueBuf):
            return VInt(v.n)
        if type(v).__name__ == "VBytes":
            return VInt(z3.Length(v.t))
        if type(v).__name__ == "VArrDec":
            return VInt(v.n)
        if isinstance(v, VObj) and v.cls == "ChunkList":
            return VInt(self.cur_state_objs(v)["n"].t)
        raise OutOfSubset(f"line {line}: len of {v!r}")

    # ------------------------------------------------------------------ call dispatch
    def eval_args(self, node, st):
        args = []
        for a in node.args:
            if isinstance(a, ast.Starred):
                v = self.ev(a.value, st)
                if isinstance(v, (VTuple, VList)):
                    args.extend(v.items)
                else:
                    raise OutOfSubset(f"line {node.lineno}: *args of {v!r}")
            elif isinstance(node.func, ast.Name) and node.func.id == "isinstance" and len(args) == 1:
                args.append(NONE)  # the class expression (e.g. `int | float`) is read from the AST by isinstance_v
            else:
                args.append(self.ev(a, st))
        kwargs = {}
        for kw in node.keywords:
            if kw.arg is None:
                v = self.ev(kw.value, st)
                if isinstance(v, VDict):
                    kwargs.update(v.d)
                else:
                    raise OutOfSubset(f"line {node.lineno}: **kwargs of {v!r}")
            else:
                kwargs[kw.arg] = self.ev(kw.value, st)
        return args, kwargs

    def call_paths(self, node, st, nested=False):
        """-> [(state, Outcome('value', v) | Outcome('raise', ...))]"""
        line = node.lineno
        # logger.*(...) dropped (A-LOG)
        if isinstance(node.func, ast.Attribute) and isinstance(node.func.value, ast.Name) \
                and node.func.value.id == "logger":
            self.assume_tag("A-LOG")
            return [(st, Outcome("value", NONE))]
        if isinstance(node.func, ast.Attribute) and isinstance(node.func.value, ast.Attribute) \
                and node.func.value.attr == "logger":
            self.assume_tag("A-LOG")
            return [(st, Outcome("value", NONE))]
        fn = self.ev(node.func, st)
        args, kwargs = self.eval_args(node, st)
        return self.apply(fn, args, kwargs, st, line, node)

    def apply(self, fn, args, kwargs, st, line, node=None):
        if not isinstance(fn, VFunc):
            if isinstance(fn, VDtype):  # np.float32(x)
                return [(st, Outcome("value", self.cast_scalar(fn, args[0], st, line)))]
            if isinstance(fn, VMod) and fn.kind == "ext":
                if fn.ref in self.models:
                    return self.models[fn.ref](self, st, args, kwargs, line)
                raise OutOfSubset(f"line {line}: call to unmodelled {fn.ref}")
            raise OutOfSubset(f"line {line}: call of {fn!r}")
        k = fn.kind
        if k == "builtin":
            return self.call_builtin(fn.ref, args, kwargs, st, line, node)
        if k == "model":
            if fn.self_ is not None:
                args = [fn.self_] + list(args)
            return self.models[fn.ref](self, st, args, kwargs, line)
        if k == "callback":
            name, kind, dtype = fn.ref
            a = args[0] if args else None
            if not isinstance(a, VArr):
                raise OutOfSubset(f"line {line}: callback argument {a!r}")
            self.assume_tag("A-CALLBACK: user callable is a deterministic, side-effect free, shape-preserving function")
            from .values import ELEM_SORT
            cb = z3.Function("cb_" + name, st.heap[a.obj].sort(), INT, ELEM_SORT[kind])
            j = z3.Int("j!cb")
            obj = self.new_obj(st, kind, dtype, "cbret", contents=z3.Lambda([j], cb(st.heap[a.obj], j)))
            if smt.conc_int(a.off) != 0 or smt.conc_int(a.stride) != 1:
                raise OutOfSubset(f"line {line}: callback on a view")
            return [(st, Outcome("value", VArr(obj, z3.IntVal(0), z3.IntVal(1), a.n)))]
        if k == "repo":
            return self.call_repo(fn.ref, None, args, kwargs, st, line)
        if k == "method":
            return self.call_repo(fn.ref, fn.self_, args, kwargs, st, line)
        if k == "class":
            return self.call_class(fn.ref, args, kwargs, st, line)
        if k in ("arrmethod", "dictmethod", "listmethod", "strmethod", "opaque", "seqmethod", "scalarmethod", "bytesmethod"):
            m = self.models.get(f"{k}.{fn.ref}")
            if m is None:
                raise OutOfSubset(f"line {line}: {k} .{fn.ref}()")
            return m(self, st, [fn.self_] + args, kwargs, line)
        if k == "lambda":
            lam, env = fn.ref
            sub_env = dict(env)
            for a, v in zip(lam.args.args, args):
                sub_env[a.arg] = v
            saved = st.env
            st.env = sub_env
            try:
                return [(st, Outcome("value", self.ev(lam.body, st)))]
            finally:
                st.env = saved
        if k == "exc":
            return [(st, Outcome("value", VOpaque("exc:" + fn.ref)))]
        if k == "genobj":
            raise OutOfSubset(f"line {line}: calling a generator object")
        raise OutOfSubset(f"line {line}: call kind {k}")

    def cast_scalar(self, dt: VDtype, v, st, line):
        if dt.name in ("f4", "f8"):
            return VReal(self.to_real(v, line))
        if dt.name in ("u1", "u2", "i4", "i8"):
            raw = self.conv_store(st, v, "int", dt.name, line)
            return VInt(raw)
        if dt.name == "b1":
            return VBool(self.to_bool(v, line))
        raise OutOfSubset(f"line {line}: cast to {dt.name}")

    # ------------------------------------------------------------------ builtins
    def call_builtin(self, name, args, kwargs, st, line, node=None):
        def val(v):
            return [(st, Outcome("value", v))]
        if name in ("range", "prange"):
            a = [self.to_int(x, line) for x in args]
            par = name == "prange"
            if len(a) == 1:
                return val(VRange(z3.IntVal(0), a[0], z3.IntVal(1), par))
            if len(a) == 2:
                return val(VRange(a[0], a[1], z3.IntVal(1), par))
            return val(VRange(a[0], a[1], a[2], par))
        if name == "len":
            self._len_state = st
            return val(self.len_of(args[0], line))
        if name in ("min", "max"):
            items = args[0].items if len(args) == 1 and isinstance(args[0], (VList, VTuple)) else args
            if len(args) == 1 and isinstance(args[0], VArr):
                m = self.models.get("numpy." + name)
                return m(self, st, args, kwargs, line)
            r = items[0]
            for x in items[1:]:
                if isinstance(r, VReal) or isinstance(x, VReal):
                    a, b = self.to_real(r), self.to_real(x)
                    # Python returns the first operand on ties; values are equal so either is fine
                    r = VReal(z3.If(b < a, b, a) if name == "min" else z3.If(b > a, b, a))
                else:
                    a, b = self.to_int(r, line), self.to_int(x, line)
                    r = VInt(smt.simp(z3.If(b < a, b, a) if name == "min" else z3.If(b > a, b, a)))
            return val(r)
        if name == "abs":
            v = args[0]
            if isinstance(v, VReal):
                return val(VReal(z3.If(v.t >= 0, v.t, -v.t)))
            t = self.to_int(v, line)
            return val(VInt(smt.simp(z3.If(t >= 0, t, -t))))
        if name == "int":
            v = args[0]
            if isinstance(v, VReal):
                return val(VInt(self.trunc_to_int(st, v.t)))
            return val(VInt(self.to_int(v, line)))
        if name == "float":
            return val(VReal(self.to_real(args[0], line)))
        if name == "bool":
            return val(VBool(self.to_bool(args[0], line)))
        if name == "divmod":
            a, b = args
            if isinstance(a, VReal) or isinstance(b, VReal):
                q = self.arith(ast.FloorDiv(), a, b, st, line)
                r = VReal(self.to_real(a) - q.t * self.to_real(b))
                return val(VTuple([q, r]))
            q, r = self.int_divmod(st, self.to_int(a, line), self.to_int(b, line), line)
            return val(VTuple([VInt(q), VInt(r)]))
        if name == "round":
            v = args[0]
            if isinstance(v, VReal) and len(args) == 1:
                return val(VInt(self.round_half_even(st, v.t)))
            if isinstance(v, VInt):
                return val(v)
            raise OutOfSubset(f"line {line}: round with digits")
        if name == "callable":
            return val(VBool(isinstance(args[0], VFunc)))
        if name == "isinstance":
            return val(self.isinstance_v(args[0], node.args[1] if node is not None else None, st, line))
        if name == "sum":
            v = args[0]
            if isinstance(v, (VList, VTuple)):
                r = VInt(0)
                for x in v.items:
                    r = self.arith(ast.Add(), r, x, st, line)
                return val(r)
            if isinstance(v, VSeq):
                hook = getattr(self, "sum_seq", None)
                if hook is not None:
                    return val(hook(v, st, line))
            raise OutOfSubset(f"line {line}: sum of {v!r}")
        if name in ("list", "tuple"):
            if not args:
                return val(VList([]) if name == "list" else VTuple([]))
            v = args[0]
            if isinstance(v, (VList, VTuple)):
                return val((VList if name == "list" else VTuple)(list(v.items)))
            if isinstance(v, VDict):
                return val(VList([VStr(k) for k in v.d]))
            raise OutOfSubset(f"line {line}: {name}({v!r})")
        if name == "enumerate":
            v = args[0]
            if isinstance(v, (VList, VTuple)):
                return val(VList([VTuple([VInt(i), x]) for i, x in enumerate(v.items)]))
            if isinstance(v, VSeq):
                return val(VSeq(v.n, lambda k, s=v: VTuple([VInt(k), s.elem(k)])))
            raise OutOfSubset(f"line {line}: enumerate({v!r})")
        if name == "zip":
            if all(isinstance(v, (VList, VTuple)) for v in args):
                return val(VList([VTuple(list(t)) for t in zip(*[v.items for v in args])]))
            raise OutOfSubset(f"line {line}: zip of symbolic sequences")
        if name == "getattr":
            base, attr = args[0], args[1]
            if isinstance(attr, VStr) and attr.s is not None:
                return val(self.getattr_v(base, attr.s, st, line))
            raise OutOfSubset(f"line {line}: getattr with symbolic name")
        if name == "str":
            v = args[0]
            if isinstance(v, VStr):
                return val(v)
            return val(VOpaque("str"))
        if name == "print":
            return val(NONE)
        if name == "super":
            self_v = st.env.get("self")
            if not isinstance(self_v, VObj) or self.fi is None or self.fi.cls is None:
                raise OutOfSubset(f"line {line}: super() outside a method")
            return val(VSuper(self_v, self.fi.file, self.fi.cls))
        if name == "bytearray" or name == "memoryview":
            m = self.models.get("builtins." + name)
            if m is None:
                raise OutOfSubset(f"line {line}: {name}")
            return m(self, st, args, kwargs, line)
        if name == "type":
            return val(VOpaque("type"))
        if name == "dict":
            return val(VDict({}))
        if name == "set":
            if not args:
                return val(VTuple([]))
            if isinstance(args[0], (VList, VTuple)):
                return val(VTuple(list(args[0].items)))
        raise OutOfSubset(f"line {line}: builtin {name}")

    def isinstance_v(self, v, tnode, st, line):
        names = []
        if isinstance(tnode, ast.Name):
            names = [tnode.id]
        elif isinstance(tnode, ast.BinOp):  # str | Path
            for n in ast.walk(tnode):
                if isinstance(n, ast.Name):
                    names.append(n.id)
        elif isinstance(tnode, ast.Tuple):
            names = [n.id for n in tnode.elts if isinstance(n, ast.Name)]
        res = False
        if isinstance(tnode, ast.Attribute) and tnode.attr == "ndarray" and isinstance(v, (VArr, VArr2)):
            res = True
        for n in names:
            if n == "str" and isinstance(v, VStr):
                res = True
            if n == "int" and isinstance(v, (VInt, VBool)):
                res = True
            if n == "float" and isinstance(v, VReal):
                res = True
            if n == "Buffer" and isinstance(v, (VOpaqueBuf, VArr)):
                res = True
            if isinstance(v, VObj) and v.cls == n:
                res = True
            if n in ("list",) and isinstance(v, VList):
                res = True
        return VBool(res)

    # ------------------------------------------------------------------ repo functions
    def bind_params(self, fi, self_v, args, kwargs, st, line):
        a = fi.node.args
        names = [x.arg for x in a.posonlyargs + a.args]
        env = {}
        pos = list(args)
        if fi.cls is not None and names and names[0] in ("self", "cls") and not _is_static(fi.node):
            env[names[0]] = self_v
            names = names[1:]
        if len(pos) > len(names):
            if a.vararg is None:
                raise OutOfSubset(f"line {line}: too many positional arguments for {fi.key}")
        for n, v in zip(names, pos):
            env[n] = v
        if a.vararg is not None:
            env[a.vararg.arg] = VTuple(pos[len(names):])
        defaults = a.defaults
        dnames = names[len(names) - len(defaults):] if defaults else []
        kw = dict(kwargs)
        for n in names[len(pos):]:
            if n in kw:
                env[n] = kw.pop(n)
            elif n in dnames:
                env[n] = self.ev(defaults[dnames.index(n)], State())
            else:
                raise OutOfSubset(f"line {line}: missing argument {n} for {fi.key}")
        for x, d in zip(a.kwonlyargs, a.kw_defaults):
            if x.arg in kw:
                env[x.arg] = kw.pop(x.arg)
            elif d is not None:
                env[x.arg] = self.ev(d, State())
            else:
                raise OutOfSubset(f"line {line}: missing keyword argument {x.arg} for {fi.key}")
        if kw:
            if a.kwarg is not None:
                env[a.kwarg.arg] = VDict(kw)
            else:
                dup = [k for k in kw if k in env]
                raise OutOfSubset(f"line {line}: unexpected keyword {list(kw)} for {fi.key}")
        elif a.kwarg is not None:
            env[a.kwarg.arg] = VDict({})
        return env

    def call_repo(self, key, self_v, args, kwargs, st, line):
        fi = self.src.func(key)
        if ("repo:" + key) in self.models and not (self.contract is not None and key in self.contract.inline_calls):
            self.assume_tag("MODEL:" + key.split("::")[1])
            return self.models["repo:" + key](self, st, [self_v] + list(args), kwargs, line)
        c = self.reg.get(key)
        if c is None and fi.alias_of:
            c = self.reg.get(f"{fi.file}::{fi.alias_of}")
        env = self.bind_params(fi, self_v, args, kwargs, st, line)
        if fi.is_generator:
            if c is None:
                raise OutOfSubset(f"line {line}: generator {key} without a yield contract")
            return self.call_generator(fi, c, env, st, line)
        if c is not None and self.contract is not None and key in self.contract.inline_calls:
            return self.call_inline(fi, env, st, line)
        if c is not None and not c.inline:
            return self.call_contract(fi, c, env, st, line)
        if c is None and not (fi.is_property or key in getattr(self, "inline_ok", set())):
            raise OutOfSubset(f"line {line}: call to {key} (no contract, not inlinable)")
        return self.call_inline(fi, env, st, line)

    def call_inline(self, fi, env, st, line):
        if self.inline_depth > 6:
            raise OutOfSubset(f"line {line}: inline depth")
        saved = (st.env, self.fi, self.mod)
        sub_mod = self.src.module(fi.file)
        self.inline_depth += 1
        self.inlined.add(fi.key)
        try:
            st.env = env
            self.fi, self.mod = fi, sub_mod
            paths = self.exec_block(_strip_doc(fi.node.body), st)
        finally:
            self.inline_depth -= 1
            self.fi, self.mod = saved[1], saved[2]
        out = []
        for s2, oc in paths:
            s2.env = saved[0] if s2 is st else dict(saved[0])
            if oc.kind == NORMAL:
                out.append((s2, Outcome("value", NONE)))
            elif oc.kind == "return":
                out.append((s2, Outcome("value", oc.value)))
            elif oc.kind == "raise":
                out.append((s2, oc))
            else:
                raise OutOfSubset(f"line {line}: {oc.kind} escaping {fi.key}")
        # forked states carry their own env copies of the *callee*; restore caller env
        for s2, _ in out:
            s2.env = dict(saved[0]) if s2 is not st else saved[0]
        return out

    def call_contract(self, fi, c: Contract, env, st, line):
        """Modular call: check requires, fork on raises, havoc modifies, assume ensures."""
        n = self.call_counter.get(c.key, 0)
        self.call_counter[c.key] = n + 1
        short = c.key.split("::")[1]
        if c.trusted:
            self.trusted_used[c.key] = c.trusted_reason
        saved_env = st.env
        cenv = dict(env)
        # name compound integer arguments: the callee's clauses then mention an atom, and the defining equation
        # links it to whatever the caller knows about the expression
        for pn, pv in list(cenv.items()):
            if isinstance(pv, VInt) and not (z3.is_const(pv.t) or z3.is_int_value(pv.t)) and _has_mul(pv.t):
                a_ = smt.fresh(f"arg_{pn}")
                st.assume(a_ == pv.t)
                cenv[pn] = VInt(a_)
        # ghost parameters of the callee are supplied by the caller's contract (evaluated in the caller's scope)
        if c.ghost_params:
            sup = (self.contract.ghost_args.get(short, {}) if self.contract is not None else {})
            for gname in c.ghost_params:
                if gname not in sup:
                    raise OutOfSubset(f"line {line}: ghost argument {gname} of {short} not supplied by {self.cur_func}")
                cenv[gname] = self.spec_val(sup[gname], st)
        st.env = cenv
        saved_old, saved_res = self.old, self.result
        saved_mod = self.mod
        self.mod = self.src.module(fi.file)
        try:
            for name, expr in c.lets.items():
                cenv[name] = self.spec_val(expr, st)
            xr = [st.ghost["xs_range"]] if st.ghost.get("xs_range") is not None else []
            for i, r in enumerate(c.requires):
                g = self.spec_bool(r, st)
                st.pc.extend(xr)
                self.oblig(st, f"pre@{short}#{n}", g, line, label=f"r{i}")
                if xr:
                    del st.pc[-len(xr):]
                st.assume(g)
            if c.key == self.cur_func and self.inline_depth == 0:
                if c.decreases is None:
                    raise OutOfSubset(f"line {line}: recursive call of {c.key} without a decreases clause")
                callee_m = self.to_int(self.spec_val(c.decreases, st))
                st.env = saved_env
                caller_m = self.to_int(self.spec_val(c.decreases, st))
                st.env = cenv
                self.oblig(st, f"decreases@{line}", z3.And(callee_m >= 0, callee_m < caller_m), line)
            out = []
            cur = st
            for rz in c.raises:
                if rz.when is not None:
                    cond = self.spec_bool(rz.when, cur)
                    cc = smt.conc_bool(cond)
                    if cc is False:
                        continue
                    rs = cur.fork()
                    rs.assume(cond)
                    rs.env = dict(saved_env)
                    if cc is True or self.feasible(rs):
                        out.append((rs, Outcome("raise", exc=rz.exc, line=line)))
                    if cc is True:
                        return out
                    cur.assume(z3.Not(cond))
                elif rz.only_if is not None:
                    cond = self.spec_bool(rz.only_if, cur)
                    if smt.conc_bool(cond) is False:
                        continue
                    rs = cur.fork()
                    rs.assume(cond)
                    rs.env = dict(saved_env)
                    if self.feasible(rs):
                        out.append((rs, Outcome("raise", exc=rz.exc, line=line)))
            # snapshot for old()
            pre = cur.fork()
            pre.env = dict(cenv)
            self.old = pre
            for m in c.modifies:
                self.havoc_path(m, cur, cenv, f"c{n}")
            res = self.fresh_of_type(c.ret, cur, "ret_" + short)
            if c.ret_like and isinstance(res, VArr) and isinstance(cenv.get(c.ret_like), VArr):
                src_meta = cur.hmeta[cenv[c.ret_like].obj]
                cur.hmeta[res.obj] = dict(src_meta)
                if cur.heap[res.obj].sort() != cur.heap[cenv[c.ret_like].obj].sort():
                    cur.heap[res.obj] = smt.fresh(res.obj + "@like", cur.heap[cenv[c.ret_like].obj].sort())
            self.result = res
            for mk_, mexpr in getattr(c, "ret_meta", {}).items():
                if isinstance(res, VArr):
                    cur.hmeta[res.obj] = dict(cur.hmeta[res.obj], **{mk_: self.spec_bool(mexpr, cur)})
            for (label, expr, cls) in c.ensures:
                cur.assume(self.spec_bool(expr, cur))
            cur.env = saved_env
            out.insert(0, (cur, Outcome("value", res)))
            return out
        finally:
            self.old, self.result = saved_old, saved_res
            self.mod = saved_mod
            st.env = saved_env

    def havoc_path(self, path, st, env, tag):
        """modifies entry: 'name' (array param) or 'self.a.b' (object field)."""
        parts = path.split(".")
        v = env.get(parts[0])
        if v is None:
            return
        for p in parts[1:-1]:
            v = st.objs[v.oid][p]
        if len(parts) > 1:
            last = parts[-1]
            tgt = st.objs[v.oid].get(last)
            if isinstance(tgt, (VArr, VArr2)):
                self.havoc_view(st, tgt, tag)
            elif tgt is not None:
                st.objs[v.oid][last] = self.havoc_value(tgt, st, last)
            return
        if isinstance(v, (VArr,)):
            self.havoc_view(st, v, tag)
        elif isinstance(v, VArr2):
            self.havoc_obj(st, v.obj, tag)
        elif isinstance(v, VRecArr):
            for a in v.fields.values():
                self.havoc_obj(st, a.obj, tag)
        elif isinstance(v, VOpaqueBuf):
            self.havoc_obj(st, v.obj, tag)

    def havoc_view(self, st, v: VArr, tag):
        old = st.heap[v.obj]
        self.havoc_obj(st, v.obj, tag)
        new = st.heap[v.obj]
        cs = smt.conc_int(v.stride)
        j = smt.fresh("fr")
        if cs == 1:
            inside = z3.And(v.off <= j, j < v.off + v.n)
            st.assume(z3.ForAll([j], z3.Implies(z3.Not(inside), z3.Select(new, j) == z3.Select(old, j))))

    def fresh_of_type(self, t, st, name):
        if t is None:
            return NONE
        return self.mk_param(name, t, st)

    # ------------------------------------------------------------------ parameters
    def mk_param(self, name, t, st: State):
        if isinstance(t, Int):
            x = z3.Int(name) if "!" not in name else smt.fresh(name)
            if name in self._param_names_used:
                x = smt.fresh(name)
            self._param_names_used.add(name)
            if t.lo is not None:
                st.assume(x >= t.lo)
            if t.hi is not None:
                st.assume(x <= t.hi)
            return VInt(x)
        if isinstance(t, Real):
            return VReal(smt.fresh(name, REAL))
        if isinstance(t, Bool):
            return VBool(smt.fresh(name, BOOL))
        if isinstance(t, Str):
            return VStr(None, smt.fresh(name, z3.StringSort()))
        if isinstance(t, Arr):
            obj = self.new_obj(st, t.kind, t.dtype, name)
            n = smt.fresh(name + "_len")
            st.assume(n >= 0)
            off = z3.IntVal(0)
            if t.view:
                off = smt.fresh(name + "_off")
                st.assume(off >= 0)
            return VArr(obj, off, z3.IntVal(1), n)
        if isinstance(t, Chunks):
            from .iomodel import chunklist_new
            cl = chunklist_new(self, st, t.kind, None)
            f = st.objs[cl.oid]
            f["n"] = VInt(smt.fresh(name + "_n"))
            f["fresh"] = False
            st.assume(f["n"].t >= 0)
            return cl
        if isinstance(t, Raw):
            return VOpaqueArr(z3.Const(name + "@raw", z3.ArraySort(INT, ELEM_SORT[t.kind])))
        if isinstance(t, Arr2):
            obj = self.new_obj(st, t.kind, t.dtype, name)
            n0, n1 = smt.fresh(name + "_n0"), smt.fresh(name + "_n1")
            st.assume(z3.And(n0 >= 0, n1 >= 0))
            return VArr2(obj, z3.IntVal(0), n1, z3.IntVal(1), n0, n1)
        if isinstance(t, RecArr):
            n = smt.fresh(name + "_len")
            st.assume(n >= 0)
            fields = {}
            for f, (kind, dtype) in t.fields.items():
                obj = self.new_obj(st, kind, dtype, f"{name}.{f}")
                fields[f] = VArr(obj, z3.IntVal(0), z3.IntVal(1), n)
            return VRecArr(fields, n)
        if isinstance(t, Obj):
            fields = {f: self.mk_param(f"{name}.{f}", ft, st) for f, ft in t.fields.items()}
            oid = self.new_oid(st, fields)
            return VObj(oid, t.cls, t.file)
        if isinstance(t, Const):
            v = t.value
            if isinstance(v, Const):
                v = v.value
            if v is None:
                return NONE
            if isinstance(v, bool):
                return VBool(v)
            if isinstance(v, int):
                return VInt(v)
            if isinstance(v, float):
                return VReal(v)
            if isinstance(v, str):
                return VStr(v)
            if isinstance(v, V):
                return v
        if isinstance(t, Opaque):
            return VOpaque(name)
        if type(t).__name__ == "Bytes":
            from .bytesmodel import VBytes
            return VBytes(smt.fresh(name, z3.StringSort()))
        if isinstance(t, Callback):
            return VFunc("callback", (name, t.kind, t.dtype))
        if isinstance(t, SeqOf):
            n = smt.fresh(name + "_len")
            st.assume(n >= 0)

            def leaf(tt, nm):
                if isinstance(tt, Real):
                    f = z3.Function(nm, INT, REAL)
                    return lambda i: VReal(f(smt.som(i)))
                if isinstance(tt, Int):
                    f = z3.Function(nm, INT, INT)
                    return lambda i: VInt(f(smt.som(i)))
                if isinstance(tt, Tup):
                    fs = [leaf(x, f"{nm}.{k}") for k, x in enumerate(tt.items)]
                    return lambda i: VTuple([g(i) for g in fs])
                if isinstance(tt, Arr):
                    # a list of 1-D arrays: item i is the view [OFF(i), OFF(i) + LEN(i)) of one backing object
                    obj = self.new_obj(st, tt.kind, tt.dtype, nm)
                    off = z3.Function(nm + ".off", INT, INT)
                    ln = z3.Function(nm + ".len", INT, INT)
                    qi = z3.Int("qi!seq")
                    st.assume(z3.ForAll([qi], z3.And(off(qi) >= 0, ln(qi) >= 0), patterns=[z3.MultiPattern(off(qi), ln(qi))]))
                    return lambda i: VArr(obj, off(smt.som(i)), z3.IntVal(1), ln(smt.som(i)))
                raise OutOfSubset(f"sequence item type {tt!r}")
            return VSeq(n, leaf(t.item, name + "@item"))
        if isinstance(t, Tup):
            return VTuple([self.mk_param(f"{name}.{i}", it, st) for i, it in enumerate(t.items)])
        if isinstance(t, Opt):
            raise OutOfSubset(f"Opt parameter {name} must be resolved by a case split")
        raise OutOfSubset(f"parameter type {t!r}")

    def call_class(self, ref, args, kwargs, st, line):
        m = self.models.get("class:" + ref)
        if m is not None:
            return m(self, st, args, kwargs, line)
        relfile, cname = ref.split("::")
        init = self.src.find_method(relfile, cname, "__init__")
        if init is not None and ref in getattr(self, "inline_classes", set()):
            obj = VObj(self.new_oid(st, {}), cname, relfile)
            env = self.bind_params(init, obj, args, kwargs, st, line)
            out = []
            for s2, oc in self.call_inline(init, env, st, line):
                out.append((s2, Outcome("value", obj) if oc.kind == "value" else oc))
            return out
        raise OutOfSubset(f"line {line}: constructor {ref}")

    def call_generator(self, fi, c, env, st, line):
        """A generator under a yield contract: the call only checks the preconditions and captures the
        argument environment; the blocks are described at the consuming `for` (stmt.for_generator)."""
        if not getattr(c, "gen_spec", None):
            raise OutOfSubset(f"line {line}: generator {c.key} has no consumer-side yield contract")
        saved_env, saved_mod = st.env, self.mod
        cenv = dict(env)
        st.env = cenv
        self.mod = self.src.module(fi.file)
        n = self.call_counter.get(c.key, 0)
        self.call_counter[c.key] = n + 1
        short = c.key.split("::")[1]
        try:
            for name, expr in c.lets.items():
                try:
                    cenv[name] = self.spec_val(expr, st)
                except OutOfSubset:
                    pass  # abbreviation over producer-side state the consumer does not model
            for i, r in enumerate(c.gen_requires):
                g = self.spec_bool(r, st)
                self.oblig(st, f"pre@{short}#{n}", g, line, label=f"r{i}")
                st.assume(g)
            spec = {k: self.spec_val(e, st) for k, e in c.gen_spec.items()}
        finally:
            st.env, self.mod = saved_env, saved_mod
        return [(st, Outcome("value", VFunc("genobj", (c, spec, env.get("self")))))]

    def _mark_obj_modified(self, o, st, objs, fields, depth, only=None):
        if depth > 4 or o.oid not in st.objs:
            return
        for f, v in st.objs[o.oid].items():
            if only is not None and f not in only:
                continue
            fields.add((o.oid, f))
            if isinstance(v, VObj):
                self._mark_obj_modified(v, st, objs, fields, depth + 1)
            elif isinstance(v, (VArr, VArr2)):
                objs.add(v.obj)
            elif isinstance(v, str) and v in st.heap:
                objs.add(v)

    def call_modifies(self, n: ast.Call, st, objs, fields):
        """Heap objects a call inside a loop body may modify (from the callee's contract/model)."""
        try:
            fn = self.quiet_ev(n.func, st)
        except OutOfSubset:
            return
        if not isinstance(fn, VFunc):
            return
        if fn.kind in ("repo", "method") and ("repo:" + fn.ref) in self.models:
            # call-site model of a repo method: its receiver's (ghost) state is modified
            if isinstance(fn.self_, VObj):
                only = REPO_MODEL_MODIFIES.get(fn.ref)
                self._mark_obj_modified(fn.self_, st, objs, fields, 0, only)
            return
        if fn.kind in ("repo", "method"):
            try:
                fi = self.src.func(fn.ref)
            except ContractMismatch:
                return
            c = self.reg.get(fn.ref) or (self.reg.get(f"{fi.file}::{fi.alias_of}") if fi.alias_of else None)
            if c is None:
                if fi.is_property or fn.ref in getattr(self, "inline_ok", set()):
                    # inlined: scan its body too (stores through parameters)
                    sub_names, sub_objs, sub_fields = set(), set(), set()
                    # conservative: treat array args as modified if the callee stores into a parameter
                    pnames = {a.arg for a in fi.node.args.args}
                    stored = set()
                    for x in ast.walk(fi.node):
                        if isinstance(x, (ast.Assign, ast.AugAssign)):
                            for t in (x.targets if isinstance(x, ast.Assign) else [x.target]):
                                b = t
                                while isinstance(b, ast.Subscript):
                                    b = b.value
                                if isinstance(b, ast.Name) and b.id in pnames and isinstance(t, ast.Subscript):
                                    stored.add(b.id)
                    if stored:
                        formal = [a.arg for a in fi.node.args.args]
                        if fi.cls and formal and formal[0] == "self":
                            formal = formal[1:]
                        for fa, aa in zip(formal, n.args):
                            if fa in stored:
                                self._mod_obj_of(aa, st, objs)
                return
            formal = [a.arg for a in fi.node.args.args]
            if fi.cls and formal and formal[0] in ("self", "cls"):
                formal = formal[1:]
            amap = dict(zip(formal, n.args))
            for kw in n.keywords:
                if kw.arg:
                    amap[kw.arg] = kw.value
            for m in c.modifies:
                parts = m.split(".")
                if parts[0] == "self":
                    base = fn.self_
                    if isinstance(base, VObj):
                        v = base
                        ok = True
                        for p in parts[1:-1]:
                            v = st.objs[v.oid].get(p)
                            if not isinstance(v, VObj):
                                ok = False
                                break
                        if ok:
                            tgt = st.objs[v.oid].get(parts[-1])
                            if isinstance(tgt, (VArr, VArr2)):
                                objs.add(tgt.obj)
                            else:
                                fields.add((v.oid, parts[-1]))
                elif parts[0] in amap and len(parts) == 1:
                    self._mod_obj_of(amap[parts[0]], st, objs)
        elif fn.kind == "model":
            # library models that mutate their receiver / arguments
            if isinstance(fn.self_, VObj) and fn.self_.oid in st.objs:
                for f in list(st.objs[fn.self_.oid]):
                    fields.add((fn.self_.oid, f))
            for pos in MODEL_WRITES.get(fn.ref, ()):
                if pos < len(n.args):
                    self._mod_obj_of(n.args[pos], st, objs)
            for kw in n.keywords:
                if kw.arg == "out":
                    self._mod_obj_of(kw.value, st, objs)
        elif fn.kind in ("arrmethod",) and fn.ref in ("fill", "sort"):
            if isinstance(fn.self_, VArr):
                objs.add(fn.self_.obj)
        elif fn.kind == "listmethod" and fn.ref in ("append", "extend"):
            pass


# argument positions (after the receiver) written by a library model
MODEL_WRITES = {"FileIO.readinto": (0,)}
# receiver fields (ghost state) changed by the call-site models of repo methods (pvc/wrmodel.py)
REPO_MODEL_MODIFIES = {
    "sigpyproc/io/fileio.py::FileWriter.cwrite": ("usamples", "nwrites", "file_obj"),
    "sigpyproc/io/fileio.py::FileBase.close": ("closed",),
    "sigpyproc/header.py::Header.new_header": (),
    "sigpyproc/header.py::Header.mjd_after_nsamps": (),
    "sigpyproc/header.py::Header.prep_outfile": (),
}


class VSuper(V):
    __slots__ = ("obj", "file", "cls")

    def __init__(self, obj, file, cls):
        self.obj, self.file, self.cls = obj, file, cls


class VOpaqueArr(V):
    """Raw heap array term handed to a spec function (arr(x))."""
    __slots__ = ("t",)

    def __init__(self, t):
        self.t = t


class VOpaqueBuf(V):
    """bytearray / memoryview: a byte buffer object (bv8 or int kind) of length n."""
    __slots__ = ("obj", "n", "off")

    def __init__(self, obj, n, off=None):
        self.obj, self.n, self.off = obj, n, off if off is not None else z3.IntVal(0)


def _has_mul(t):
    if z3.is_mul(t) and sum(1 for c in t.children() if not z3.is_int_value(c)) >= 2:
        return True
    return any(_has_mul(c) for c in t.children())


def _is_static(node):
    for d in node.decorator_list:
        if isinstance(d, ast.Name) and d.id == "staticmethod":
            return True
    return False
