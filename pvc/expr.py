"""Expression evaluation (code mode and spec mode share one translator)."""
from __future__ import annotations

import ast

import z3

from . import smt
from .source import OutOfSubset
from .state import State
from .values import *  # noqa: F403
from .engine import NP_DTYPES, STR_DTYPES


class ExprMixin:
    # ------------------------------------------------------------------ entry
    def ev(self, node, st: State):
        m = getattr(self, "ev_" + type(node).__name__, None)
        if m is None:
            raise OutOfSubset(f"line {getattr(node, 'lineno', 0)}: expression {type(node).__name__}")
        return m(node, st)

    def ev_Constant(self, node, st):
        v = node.value
        if isinstance(v, bool):
            return VBool(v)
        if isinstance(v, int):
            return VInt(v)
        if isinstance(v, float):
            return VReal(v)
        if isinstance(v, str):
            return VStr(v)
        if v is None:
            return NONE
        if isinstance(v, complex):
            return VOpaque("complex")
        if isinstance(v, bytes):
            return VOpaque("bytes")
        raise OutOfSubset(f"line {node.lineno}: constant {v!r}")

    def ev_Name(self, node, st):
        name = node.id
        if name in st.env:
            v = st.env[name]
            if isinstance(v, VPoison):
                if st.poison_reads is not None:
                    st.poison_reads.append((name, node.lineno, list(st.pc)))
                raise OutOfSubset(f"line {node.lineno}: read of loop-carried scalar {name}")
            return v
        if self.spec_depth and name == "result":
            return self.result
        if self.spec_depth and name == "bK" and getattr(self, "gen_specs", None):
            return VInt(self.gen_specs["bK"])
        if self.spec_depth and name in ("True", "False"):
            return VBool(name == "True")
        return self.resolve_global(name, node)

    def resolve_global(self, name, node):
        mod = self.mod
        if name in mod.imports:
            imp = mod.imports[name]
            if imp[0] == "mod":
                return VMod("mod", imp[1])
            if imp[0] == "sym":
                tmod = self.src.module(imp[1])
                if imp[2] in tmod.funcs:
                    return VFunc("repo", f"{imp[1]}::{imp[2]}")
                if imp[2] in tmod.classes:
                    return VFunc("class", f"{imp[1]}::{imp[2]}")
                if imp[2] in tmod.consts:
                    return self.ev_const_expr(tmod, tmod.consts[imp[2]])
                return VMod("ext", imp[1] + ":" + imp[2])
            return VMod("ext", imp[1])
        if name in mod.funcs:
            return VFunc("repo", f"{mod.file}::{name}")
        if name in mod.classes:
            return VFunc("class", f"{mod.file}::{name}")
        if name in mod.consts:
            return self.ev_const_expr(mod, mod.consts[name])
        if name in ("range", "len", "min", "max", "abs", "int", "float", "bool", "divmod", "round", "sum",
                    "isinstance", "callable", "enumerate", "zip", "getattr", "bytearray", "memoryview", "str", "list",
                    "tuple", "print", "type", "prange", "set", "dict", "any", "all", "super"):
            return VFunc("builtin", name)
        if name in ("ValueError", "OSError", "TypeError", "RuntimeError", "BlockingIOError", "IndexError",
                    "NotImplementedError", "Exception", "KeyError", "ZeroDivisionError"):
            return VFunc("exc", name)
        raise OutOfSubset(f"line {node.lineno}: unknown name {name}")

    def ev_const_expr(self, mod, expr):
        """Module-level constant evaluated structurally (literals, dict/set/tuple of literals)."""
        save = self.mod
        self.mod = mod
        try:
            return self.ev(expr, State())
        finally:
            self.mod = save

    def ev_Tuple(self, node, st):
        return VTuple([self.ev(e, st) for e in node.elts])

    def ev_List(self, node, st):
        return VList([self.ev(e, st) for e in node.elts])

    def ev_Set(self, node, st):
        return VTuple([self.ev(e, st) for e in node.elts])

    def ev_Dict(self, node, st):
        d = {}
        for k, v in zip(node.keys, node.values):
            if k is None:
                inner = self.ev(v, st)
                if not isinstance(inner, VDict):
                    raise OutOfSubset(f"line {node.lineno}: ** of non-dict")
                d.update(inner.d)
                continue
            kv = self.ev(k, st)
            if isinstance(kv, VStr) and kv.s is not None:
                d[kv.s] = self.ev(v, st)
            elif isinstance(kv, VInt) and smt.conc_int(kv.t) is not None:
                d[smt.conc_int(kv.t)] = self.ev(v, st)
            else:
                raise OutOfSubset(f"line {node.lineno}: dict key {kv!r}")
        return VDict(d)

    def ev_JoinedStr(self, node, st):
        parts = []
        for p in node.values:
            if isinstance(p, ast.Constant):
                parts.append(str(p.value))
            else:
                try:
                    v = self.ev(p.value, st)
                except OutOfSubset:
                    return VOpaque("fstring")
                if isinstance(v, VStr) and v.s is not None:
                    parts.append(v.s)
                elif isinstance(v, VInt) and smt.conc_int(v.t) is not None:
                    spec = ""
                    if p.format_spec is not None:
                        spec = "".join(str(c.value) for c in p.format_spec.values if isinstance(c, ast.Constant))
                    parts.append(format(smt.conc_int(v.t), spec))
                else:
                    return VOpaque("fstring")
        return VStr("".join(parts))

    def ev_UnaryOp(self, node, st):
        v = self.ev(node.operand, st)
        if isinstance(node.op, ast.Not):
            return VBool(z3.Not(self.to_bool(v, node.lineno)))
        if isinstance(node.op, ast.USub):
            if isinstance(v, VReal):
                return VReal(-v.t)
            if isinstance(v, VArr):
                return self.array_binop(ast.Mult(), VInt(-1), v, st, node.lineno)
            return VInt(-self.to_int(v, node.lineno))
        if isinstance(node.op, ast.UAdd):
            return v
        if isinstance(node.op, ast.Invert):
            if isinstance(v, VBool):
                return VBool(z3.Not(v.t))
            if isinstance(v, VArr) and st.hmeta[v.obj]["kind"] == "bool":
                j = z3.Int("j!inv")
                raw = z3.Not(z3.Select(st.heap[v.obj], self.arr_index_term(v, j)))
                obj = self.new_obj(st, "bool", "b1", "tmp", contents=z3.Lambda([j], raw))
                return VArr(obj, z3.IntVal(0), z3.IntVal(1), v.n)
            return VInt(-self.to_int(v, node.lineno) - 1)
        raise OutOfSubset(f"line {node.lineno}: unary {node.op}")

    def ev_BinOp(self, node, st):
        a = self.ev(node.left, st)
        b = self.ev(node.right, st)
        return self.arith(node.op, a, b, st, node.lineno)

    def ev_under(self, node, st, guard):
        """Evaluate with `guard` assumed; facts introduced meanwhile are kept as implications."""
        n0 = len(st.pc)
        st.pc.append(guard)
        try:
            v = self.ev(node, st)
        finally:
            new = st.pc[n0 + 1:]
            del st.pc[n0:]
            st.pc.extend(z3.Implies(guard, f) for f in new)
        return v

    def ev_BoolOp(self, node, st):
        # short-circuit: later operands are evaluated under the earlier ones
        terms = []
        for e in node.values:
            if terms:
                g = z3.And(terms) if isinstance(node.op, ast.And) else z3.Not(z3.Or(terms))
                v = self.ev_under(e, st, g)
            else:
                v = self.ev(e, st)
            terms.append(self.to_bool(v, node.lineno))
            cb = smt.conc_bool(terms[-1])
            if cb is not None and cb == isinstance(node.op, ast.Or):
                break  # short-circuit on a decided operand
        return VBool(z3.And(terms) if isinstance(node.op, ast.And) else z3.Or(terms))

    def ev_Compare(self, node, st):
        left = self.ev(node.left, st)
        res = []
        for op, rn in zip(node.ops, node.comparators):
            right = self.ev(rn, st)
            res.append(self.compare(op, left, right, st, node.lineno))
            left = right
        return VBool(z3.And(res) if len(res) > 1 else res[0]) if all(z3.is_bool(r) for r in res) else res[0]

    def compare(self, op, a, b, st, line):
        if isinstance(op, (ast.Is, ast.IsNot)):
            if isinstance(b, VNone) or isinstance(a, VNone):
                r = z3.BoolVal(isinstance(a, VNone) and isinstance(b, VNone))
            else:
                r = self.v_eq(a, b, line)
            return z3.Not(r) if isinstance(op, ast.IsNot) else r
        if isinstance(op, (ast.In, ast.NotIn)):
            if isinstance(b, (VTuple, VList)):
                r = z3.Or([self.v_eq(a, x, line) for x in b.items] or [z3.BoolVal(False)])
            elif isinstance(b, VDict):
                r = z3.Or([self.v_eq(a, VStr(k) if isinstance(k, str) else VInt(k), line) for k in b.d]
                          or [z3.BoolVal(False)])
            elif isinstance(b, VStr) and isinstance(a, VStr):  # substring test
                if a.s is not None and b.s is not None:
                    r = z3.BoolVal(a.s in b.s)
                else:
                    r = z3.Contains(b.t if b.s is None else z3.StringVal(b.s), a.t if a.s is None else z3.StringVal(a.s))
            else:
                raise OutOfSubset(f"line {line}: 'in' on {b!r}")
            return z3.Not(r) if isinstance(op, ast.NotIn) else r
        if isinstance(a, (VArr,)) or isinstance(b, (VArr,)):
            return self.array_compare(op, a, b, st, line)
        if isinstance(op, ast.Eq):
            return self.v_eq(a, b, line)
        if isinstance(op, ast.NotEq):
            return z3.Not(self.v_eq(a, b, line))
        if isinstance(a, VBV) and isinstance(b, VBV) and a.width == b.width:
            f = {ast.Lt: z3.ULT, ast.LtE: z3.ULE, ast.Gt: z3.UGT, ast.GtE: z3.UGE}[type(op)]
            return f(a.t, b.t)
        if not (self.is_num(a) and self.is_num(b)):
            raise OutOfSubset(f"line {line}: comparison of {a!r} and {b!r}")
        if isinstance(a, VReal) or isinstance(b, VReal):
            x, y = self.to_real(a), self.to_real(b)
        else:
            x, y = self.to_int(a), self.to_int(b)
        if isinstance(op, ast.Lt):
            return x < y
        if isinstance(op, ast.LtE):
            return x <= y
        if isinstance(op, ast.Gt):
            return x > y
        if isinstance(op, ast.GtE):
            return x >= y
        raise OutOfSubset(f"line {line}: comparison {op}")

    def array_compare(self, op, a, b, st, line):
        arr = a if isinstance(a, VArr) else b
        j = z3.Int("j!cmp")

        def el(x):
            if isinstance(x, VArr):
                return self.elem_wrap(z3.Select(st.heap[x.obj], self.arr_index_term(x, j)), st.hmeta[x.obj]["kind"])
            return x
        self.spec_depth += 1
        try:
            r = self.compare(op, el(a), el(b), st, line)
        finally:
            self.spec_depth -= 1
        obj = self.new_obj(st, "bool", "b1", "tmp", contents=z3.Lambda([j], r))
        return VArr(obj, z3.IntVal(0), z3.IntVal(1), arr.n)

    def ev_IfExp(self, node, st):
        c = self.to_bool(self.ev(node.test, st), node.lineno)
        cc = smt.conc_bool(c)
        if cc is True:
            return self.ev(node.body, st)
        if cc is False:
            return self.ev(node.orelse, st)
        a = self.ev_under(node.body, st, c)
        b = self.ev_under(node.orelse, st, z3.Not(c))
        return self.ite(c, a, b, node.lineno)

    def ite(self, c, a, b, line=0):
        if isinstance(a, VNone) and isinstance(b, VNone):
            return a
        if isinstance(a, VReal) or isinstance(b, VReal):
            if self.is_num(a) and self.is_num(b):
                return VReal(z3.If(c, self.to_real(a), self.to_real(b)))
        if isinstance(a, VBool) and isinstance(b, VBool):
            return VBool(z3.If(c, a.t, b.t))
        if isinstance(a, VBV) and isinstance(b, VBV) and a.width == b.width:
            return VBV(z3.If(c, a.t, b.t))
        if self.is_num(a) and self.is_num(b):
            return VInt(z3.If(c, self.to_int(a), self.to_int(b)))
        if isinstance(a, VStr) and isinstance(b, VStr):
            if a.s is not None and a.s == b.s:
                return a
            ta = a.t if a.s is None else z3.StringVal(a.s)
            tb = b.t if b.s is None else z3.StringVal(b.s)
            return VStr(None, z3.If(c, ta, tb))
        if isinstance(a, VTuple) and isinstance(b, VTuple) and len(a.items) == len(b.items):
            return VTuple([self.ite(c, x, y, line) for x, y in zip(a.items, b.items)])
        if isinstance(a, VArr) and isinstance(b, VArr) and a.obj == b.obj:
            return VArr(a.obj, z3.If(c, a.off, b.off), z3.If(c, a.stride, b.stride), z3.If(c, a.n, b.n))
        if a is b:
            return a
        raise OutOfSubset(f"line {line}: merge of {a!r} and {b!r}")

    # ------------------------------------------------------------------ attribute / subscript
    def ev_Attribute(self, node, st):
        base = self.ev(node.value, st)
        return self.getattr_v(base, node.attr, st, node.lineno)

    def getattr_v(self, base, attr, st, line=0):
        if isinstance(base, VMod):
            if base.kind == "mod":
                tmod = self.src.module(base.ref)
                if attr in tmod.funcs:
                    return VFunc("repo", f"{base.ref}::{attr}")
                if attr in tmod.classes:
                    return VFunc("class", f"{base.ref}::{attr}")
                if attr in tmod.consts:
                    return self.ev_const_expr(tmod, tmod.consts[attr])
                raise OutOfSubset(f"line {line}: {base.ref} has no {attr}")
            dotted = base.ref + "." + attr
            if base.ref == "os" and attr in ("SEEK_SET", "SEEK_CUR", "SEEK_END"):
                return VInt({"SEEK_SET": 0, "SEEK_CUR": 1, "SEEK_END": 2}[attr])
            root = base.ref.split(".")[0]
            if root in ("numpy", "np") and attr in NP_DTYPES and base.ref in ("numpy", "np"):
                return VDtype(NP_DTYPES[attr])
            if dotted in self.models:
                return VFunc("model", dotted)
            return VMod("ext", dotted)
        if isinstance(base, VArr):
            if attr == "size":
                return VInt(base.n)
            if attr == "shape":
                return VTuple([VInt(base.n)])
            if attr == "ndim":
                return VInt(1)
            if attr == "dtype":
                return VDtype(st.hmeta[base.obj].get("dtype") or "?")
            if attr in ("real", "imag", "T"):
                raise OutOfSubset(f"line {line}: array attribute {attr}")
            return VFunc("arrmethod", attr, base)
        if isinstance(base, VArr2):
            if attr == "shape":
                return VTuple([VInt(base.n0), VInt(base.n1)])
            if attr == "ndim":
                return VInt(2)
            if attr == "size":
                return VInt(smt.som(base.n0 * base.n1))
            if attr == "dtype":
                return VDtype(st.hmeta[base.obj].get("dtype") or "?")
            if attr == "T":
                return VArr2(base.obj, base.off, base.s1, base.s0, base.n1, base.n0)
            return VFunc("arrmethod", attr, base)
        if isinstance(base, VRecArr):
            if attr == "shape":
                return VTuple([VInt(base.n)])
            if attr == "size":
                return VInt(base.n)
        if isinstance(base, VObj):
            fields = st.objs[base.oid]
            if attr in fields:
                return fields[attr]
            if f"{base.cls}.{attr}" in self.models:
                return VFunc("model", f"{base.cls}.{attr}", base)
            return self.obj_attr(base, attr, st, line)
        if type(base).__name__ == "VRec":
            if attr in base.fields:
                return base.fields[attr]
            raise OutOfSubset(f"line {line}: record {base.cls} has no field {attr}")
        if type(base).__name__ == "VArrDec":
            if attr == "size":
                return VInt(base.n)
            if attr == "dtype":
                return VDtype(base.dtype)
            if attr == "shape":
                return VTuple([VInt(base.n)])
            return VFunc("arrmethod", attr, base)
        if isinstance(base, (VReal, VInt)) and attr == "astype":
            return VFunc("scalarmethod", attr, base)
        if isinstance(base, VDtype):
            if attr == "itemsize":
                return VInt({"u1": 1, "u2": 2, "i4": 4, "f4": 4, "f8": 8, "i8": 8, "b1": 1, "c8": 8}[base.name])
            if attr == "type":
                return base
            if attr == "kind" and base.name and base.name[0] in "uifbc":
                return VStr(base.name[0])
        if type(base).__name__ == "VSuper":
            mod_ = self.src.module(base.file)
            for b in mod_.classes[base.cls][1]:
                bf = self.src.class_file(base.file, b)
                if bf is None:
                    continue
                fi_ = self.src.find_method(bf, b, attr)
                if fi_ is not None:
                    return VFunc("method", fi_.key, base.obj)
            raise OutOfSubset(f"line {line}: super().{attr}")
        if isinstance(base, VDict):
            return VFunc("dictmethod", attr, base)
        if isinstance(base, VList):
            return VFunc("listmethod", attr, base)
        if isinstance(base, VSeq):
            return VFunc("seqmethod", attr, base)
        if isinstance(base, VStr):
            return VFunc("strmethod", attr, base)
        if type(base).__name__ == "VBytes":
            return VFunc("bytesmethod", attr, base)
        if isinstance(base, VOpaque):
            return VFunc("opaque", attr, base)
        if isinstance(base, VFunc) and base.kind == "class":
            # class attribute (ClassVar tables)
            relfile, cname = base.ref.split("::")
            tmod = self.src.module(relfile)
            for s in tmod.classes[cname][0].body:
                tgt = None
                if isinstance(s, ast.AnnAssign) and isinstance(s.target, ast.Name):
                    tgt, val = s.target.id, s.value
                elif isinstance(s, ast.Assign) and isinstance(s.targets[0], ast.Name):
                    tgt, val = s.targets[0].id, s.value
                if tgt == attr and val is not None:
                    return self.ev_const_expr(tmod, val)
            if f"{cname}.{attr}" in tmod.funcs:
                return VFunc("repo", f"{relfile}::{cname}.{attr}")
        if isinstance(base, VFunc) and base.kind == "repo" and attr == "py_func":
            return base
        if isinstance(base, VFunc) and base.kind == "model" and (base.ref + "." + attr) in self.models:
            return VFunc("model", base.ref + "." + attr, None)  # e.g. np.logical_or.reduce
        raise OutOfSubset(f"line {line}: attribute {attr} of {base!r}")

    def ev_Subscript(self, node, st):
        base = self.ev(node.value, st)
        return self.subscript(base, node.slice, st, node.lineno)

    def ev_slice_parts(self, sl, st):
        lo = self.to_int(self.ev(sl.lower, st)) if sl.lower is not None else None
        hi = self.to_int(self.ev(sl.upper, st)) if sl.upper is not None else None
        step = self.to_int(self.ev(sl.step, st)) if sl.step is not None else None
        return lo, hi, step

    def subscript(self, base, sl, st, line):
        if isinstance(base, VArr):
            if isinstance(sl, ast.Slice):
                lo, hi, step = self.ev_slice_parts(sl, st)
                return self.slice_view(st, base, lo, hi, step, line)
            idx = self.ev(sl, st)
            if isinstance(idx, VArr):
                raise OutOfSubset(f"line {line}: fancy indexing")
            return self.load(st, base, self.to_int(idx, line), line)
        if isinstance(base, VArr2):
            return self.subscript2(base, sl, st, line)
        if type(base).__name__ == "VFirstTrueTuple":
            from .iomodel import first_true
            c = smt.conc_int(self.to_int(self.ev(sl, st), line))
            if c != 0:
                raise OutOfSubset(f"line {line}: np.where(...)[0][k] with k != 0")
            return first_true(self, st, base, line)
        if type(base).__name__ == "VArrDec":
            from .iomodel import VArrDec, dec_elem
            if isinstance(sl, ast.Slice):
                lo, hi, step = self.ev_slice_parts(sl, st)
                if step is not None or (lo is not None and smt.conc_int(lo) != 0):
                    raise OutOfSubset(f"line {line}: slice of a decoded view")
                h = base.n if hi is None else hi
                n2 = smt.simp(z3.If(h < 0, z3.IntVal(0), z3.If(h <= base.n, h, base.n)))
                if self.entails(st, z3.And(0 <= h, h <= base.n)):
                    n2 = h
                return VArrDec(base.obj, base.off, base.isz, n2, base.dtype)
            k = self.to_int(self.ev(sl, st), line)
            if self.spec_depth == 0:
                self.oblig(st, f"index@{line}", z3.And(0 <= k, k < base.n), line)
                st.assume(z3.And(0 <= k, k < base.n))
            return dec_elem(st, base, k)
        if isinstance(base, VObj) and base.cls == "ChunkList":
            f = st.objs[base.oid]
            arr = VArr(f["obj"], z3.IntVal(0), z3.IntVal(1), f["n"].t)
            return self.subscript(arr, sl, st, line)
        if isinstance(base, (VTuple, VList)):
            if isinstance(sl, ast.Slice):
                lo, hi, step = self.ev_slice_parts(sl, st)
                clo = 0 if lo is None else smt.conc_int(lo)
                chi = len(base.items) if hi is None else smt.conc_int(hi)
                if clo is None or chi is None or step is not None:
                    raise OutOfSubset(f"line {line}: symbolic slice of a list")
                return type(base)(base.items[clo:chi])
            idx = self.ev(sl, st)
            c = smt.conc_int(self.to_int(idx, line))
            if c is None:
                raise OutOfSubset(f"line {line}: symbolic index into tuple/list")
            if not -len(base.items) <= c < len(base.items):
                raise OutOfSubset(f"line {line}: tuple index out of range")
            return base.items[c]
        if isinstance(base, VSeq):
            idx = self.to_int(self.ev(sl, st), line)
            if self.spec_depth == 0:
                self.oblig(st, f"index@{line}", z3.And(0 <= idx, idx < base.n), line)
                st.assume(z3.And(0 <= idx, idx < base.n))
            return base.elem(idx)
        if isinstance(base, VDict):
            k = self.ev(sl, st)
            if isinstance(k, VStr) and k.s is not None:
                if k.s not in base.d:
                    raise OutOfSubset(f"line {line}: KeyError {k.s}")
                return base.d[k.s]
            if isinstance(k, VInt):
                c = smt.conc_int(k.t)
                if c is not None and c in base.d:
                    return base.d[c]
                if c is None and base.d and all(isinstance(x, int) for x in base.d):
                    # symbolic key over a literal int-keyed table: total only on its keys
                    keys = sorted(base.d)
                    if self.spec_depth == 0:
                        self.oblig(st, f"key@{line}", z3.Or([k.t == x for x in keys]), line)
                        st.assume(z3.Or([k.t == x for x in keys]))
                    res = base.d[keys[-1]]
                    for x in reversed(keys[:-1]):
                        res = self.ite(k.t == x, base.d[x], res, line)
                    return res
            raise OutOfSubset(f"line {line}: dict key {k!r}")
        if isinstance(base, VRecArr):
            k = self.ev(sl, st)
            if isinstance(k, VStr):
                return base.fields[k.s]
            return VRecRow(base, self.to_int(k, line))
        if isinstance(base, VRecRow):
            k = self.ev(sl, st)
            return self.load(st, base.rec.fields[k.s], base.idx, line)
        if isinstance(base, VStr):
            idx = self.ev(sl, st)
            c = smt.conc_int(self.to_int(idx, line))
            if base.s is not None and c is not None:
                return VStr(base.s[c])
            tb = base.t if base.s is None else z3.StringVal(base.s)
            if c is not None and c >= 0:
                if self.spec_depth == 0:
                    self.oblig(st, f"index@{line}", z3.Length(tb) > c, line)
                return VStr(None, z3.SubString(tb, c, 1))
            raise OutOfSubset(f"line {line}: string index")
        raise OutOfSubset(f"line {line}: subscript of {base!r}")

    def subscript2(self, base: VArr2, sl, st, line):
        def row(i):
            return VArr(base.obj, smt.som(base.off + base.s0 * i), base.s1, base.n1)

        def col(j):
            return VArr(base.obj, smt.som(base.off + base.s1 * j), base.s0, base.n0)
        if isinstance(sl, ast.Tuple) and len(sl.elts) == 2:
            e0, e1 = sl.elts
            full0 = isinstance(e0, ast.Slice) and e0.lower is None and e0.upper is None and e0.step is None
            full1 = isinstance(e1, ast.Slice) and e1.lower is None and e1.upper is None and e1.step is None
            if not isinstance(e0, ast.Slice) and not isinstance(e1, ast.Slice):
                i = self.to_int(self.ev(e0, st), line)
                j = self.to_int(self.ev(e1, st), line)
                if self.spec_depth == 0:
                    g = z3.And(0 <= i, i < base.n0, 0 <= j, j < base.n1)
                    self.oblig(st, f"index@{line}", g, line)
                    st.assume(g)
                return self.load(st, VArr(base.obj, base.off, z3.IntVal(1), z3.IntVal(0)),
                                 smt.som(base.s0 * i + base.s1 * j), line, check=False)
            if not isinstance(e0, ast.Slice):
                i = self.to_int(self.ev(e0, st), line)
                if self.spec_depth == 0:
                    self.oblig(st, f"index@{line}", z3.And(0 <= i, i < base.n0), line)
                    st.assume(z3.And(0 <= i, i < base.n0))
                r = row(i)
                if full1:
                    return r
                lo, hi, step = self.ev_slice_parts(e1, st)
                return self.slice_view(st, r, lo, hi, step, line)
            if not isinstance(e1, ast.Slice):
                j = self.to_int(self.ev(e1, st), line)
                if self.spec_depth == 0:
                    self.oblig(st, f"index@{line}", z3.And(0 <= j, j < base.n1), line)
                    st.assume(z3.And(0 <= j, j < base.n1))
                c = col(j)
                if full0:
                    return c
                lo, hi, step = self.ev_slice_parts(e0, st)
                return self.slice_view(st, c, lo, hi, step, line)
            # both slices -> 2-D sub-view
            l0, h0, s0 = self.ev_slice_parts(e0, st)
            l1, h1, s1 = self.ev_slice_parts(e1, st)
            r0 = self.slice_view(st, VArr(base.obj, z3.IntVal(0), z3.IntVal(1), base.n0), l0, h0, s0, line)
            r1 = self.slice_view(st, VArr(base.obj, z3.IntVal(0), z3.IntVal(1), base.n1), l1, h1, s1, line)
            return VArr2(base.obj, smt.som(base.off + base.s0 * r0.off + base.s1 * r1.off),
                         smt.som(base.s0 * r0.stride), smt.som(base.s1 * r1.stride), r0.n, r1.n)
        if isinstance(sl, ast.Slice):
            l0, h0, s0 = self.ev_slice_parts(sl, st)
            r0 = self.slice_view(st, VArr(base.obj, z3.IntVal(0), z3.IntVal(1), base.n0), l0, h0, s0, line)
            return VArr2(base.obj, smt.som(base.off + base.s0 * r0.off), smt.som(base.s0 * r0.stride), base.s1,
                         r0.n, base.n1)
        i = self.to_int(self.ev(sl, st), line)
        if self.spec_depth == 0:
            self.oblig(st, f"index@{line}", z3.And(0 <= i, i < base.n0), line)
            st.assume(z3.And(0 <= i, i < base.n0))
        return row(i)

    def ev_ListComp(self, node, st):
        if len(node.generators) != 1 or node.generators[0].ifs:
            raise OutOfSubset(f"line {node.lineno}: comprehension shape")
        gen = node.generators[0]
        it = self.ev(gen.iter, st)
        return self.comprehension(node.elt, gen.target, it, st, node.lineno)

    def comprehension(self, elt, target, it, st, line):
        if isinstance(it, (VList, VTuple)):
            out = []
            for x in it.items:
                sub = st  # comprehension scope: bind and restore
                saved = {n.id: st.env.get(n.id) for n in ast.walk(target) if isinstance(n, ast.Name)}
                self.bind_target(target, x, sub, line)
                out.append(self.ev(elt, sub))
                for k, v in saved.items():
                    if v is None:
                        st.env.pop(k, None)
                    else:
                        st.env[k] = v
            return VList(out)
        if isinstance(it, VRange):
            clo, chi, cstep = (smt.conc_int(x) for x in (it.lo, it.hi, it.step))
            if clo is not None and chi is not None and cstep is not None and len(range(clo, chi, cstep)) <= 64:
                return self.comprehension(elt, target, VList([VInt(i) for i in range(clo, chi, cstep)]), st, line)
            if cstep != 1 or not isinstance(target, ast.Name):
                raise OutOfSubset(f"line {line}: comprehension over strided range")
            n = smt.simp(z3.If(it.hi > it.lo, it.hi - it.lo, z3.IntVal(0)))
            env0 = dict(st.env)
            name = target.id
            lo = it.lo
            eng = self

            def elem(idx, _env=env0, _st=st):
                sub = _st.fork()
                sub.env = dict(_env)
                sub.env[name] = VInt(smt.som(lo + idx))
                eng.spec_depth += 1
                try:
                    return eng.ev(elt, sub)
                finally:
                    eng.spec_depth -= 1
            return VSeq(n, elem)
        raise OutOfSubset(f"line {line}: comprehension over {it!r}")

    def ev_GeneratorExp(self, node, st):
        return self.ev_ListComp(node, st)

    def ev_Lambda(self, node, st):
        return VFunc("lambda", (node, dict(st.env)))

    def ev_Starred(self, node, st):
        raise OutOfSubset(f"line {node.lineno}: starred expression")
