"""VC generator: forward symbolic execution of the real function bodies against sidecar contracts."""
from __future__ import annotations

import ast
from fractions import Fraction

import z3

from . import smt
from .contract import (Arr, Arr2, Bool, Const, Contract, Int, LoopSpec, Obj, Opaque, Opt, Real, RecArr, Str)
from .source import ContractMismatch, FuncInfo, OutOfSubset, Source, _strip_doc
from .state import NORMAL, Obligation, Outcome, State
from .values import *  # noqa: F403
from .values import ELEM_SORT, DTYPE_KIND, DTYPE_RANGE

NP_DTYPES = {"uint8": "u1", "uint16": "u2", "int32": "i4", "int64": "i8", "float32": "f4", "float64": "f8",
             "bool_": "b1", "complex64": "c8", "uint64": "u8", "int": "i8", "float": "f8", "bool": "b1"}
STR_DTYPES = {"uint8": "u1", "<u1": "u1", "<u2": "u2", "<f4": "f4", "float32": "f4", "int32": "i4", "bool": "b1",
              "int": "i8", "float64": "f8", "uint16": "u2", "int64": "i8"}


class Engine(object):
    def __init__(self, source: Source, registry, specs=None, models=None):
        self.src = source
        self.reg = registry
        self.specs = specs or {}  # name -> SpecFn
        self.models = models or {}
        self.obls: list[Obligation] = []
        self.cur_func = ""
        self.cur_case = ""
        self.cur_prop = ""
        self._objctr = 0
        self._oidctr = 0
        self.used_assumptions = {}
        self.old = None  # entry snapshot (State) for old(...)
        self.result = None
        self.spec_depth = 0
        self.loop_counter = 0
        self.call_counter = {}
        self.fi: FuncInfo | None = None
        self.mod = None
        self.contract: Contract | None = None
        self.trusted_used = {}
        self.inline_depth = 0
        self.yield_index = 0

    # ------------------------------------------------------------------ bookkeeping
    def assume_tag(self, tag):
        self.used_assumptions[tag] = self.used_assumptions.get(tag, 0) + 1

    def oblig(self, st: State, kind, goal, line=0, label="", cls="P", extra=None):
        if z3.is_and(goal) and goal.num_args() > 1 and kind.startswith(("inv-", "post", "end", "yield", "end-hint", "hint")):
            # one obligation per conjunct: smaller queries, and the failing clause is named
            for i, g in enumerate(goal.children()):
                self.oblig(st, kind, g, line, f"{label}.{i + 1}" if label else str(i + 1), cls, extra)
            return
        name = f"{self.cur_func}/{kind}" + (f":{label}" if label else "")
        if self.cur_case:
            name += f"[{self.cur_case}]"
        n = sum(1 for o in self.obls if o.name == name or o.name.startswith(name + "~"))
        if n:
            name += f"~{n}"
        self.obls.append(Obligation(name, kind, list(st.pc), goal, self.cur_func, line, cls, label,
                                    params=getattr(self, "param_vals", {}), case=self.cur_case,
                                    extra=dict(extra or {}, heaps=(self.old.heap if self.old is not None else {}))))

    def new_obj(self, st: State, kind, dtype=None, name="a", contents=None):
        self._objctr += 1
        obj = f"{name}${self._objctr}"
        sort = z3.ArraySort(INT, ELEM_SORT[kind])
        st.heap[obj] = contents if contents is not None else z3.Const(f"{obj}@0", sort)
        st.hmeta[obj] = {"kind": kind, "dtype": dtype}
        return obj

    def new_oid(self, st: State, fields=None):
        self._oidctr += 1
        st.objs[self._oidctr] = dict(fields or {})
        return self._oidctr

    def havoc_obj(self, st: State, obj, tag="h"):
        sort = st.heap[obj].sort()
        st.heap[obj] = smt.fresh(f"{obj}@{tag}", sort)

    # ------------------------------------------------------------------ coercions
    def to_int(self, v, line=0):
        if isinstance(v, VInt):
            return v.t
        if isinstance(v, VBool):
            return z3.If(v.t, z3.IntVal(1), z3.IntVal(0))
        if isinstance(v, VBV):
            return z3.BV2Int(v.t, False)
        raise OutOfSubset(f"line {line}: expected int, got {v!r}")

    def to_real(self, v, line=0):
        if isinstance(v, VReal):
            return v.t
        if isinstance(v, (VInt, VBool, VBV)):
            return z3.ToReal(self.to_int(v))
        raise OutOfSubset(f"line {line}: expected number, got {v!r}")

    def to_bool(self, v, line=0):
        if isinstance(v, VBool):
            return v.t
        if isinstance(v, VInt):
            return v.t != 0
        if isinstance(v, VReal):
            return v.t != 0
        if isinstance(v, VBV):
            return v.t != z3.BitVecVal(0, v.width)
        if isinstance(v, VNone):
            return z3.BoolVal(False)
        if isinstance(v, VStr):
            if v.s is not None:
                return z3.BoolVal(bool(v.s))
            return z3.Length(v.t) > 0
        if isinstance(v, (VObj, VFunc, VArr)):
            if isinstance(v, VArr):
                raise OutOfSubset(f"line {line}: truth value of an array")
            return z3.BoolVal(True)
        if isinstance(v, (VList, VTuple)):
            return z3.BoolVal(len(v.items) > 0)
        if isinstance(v, VDict):
            return z3.BoolVal(len(v.d) > 0)
        if isinstance(v, VSeq):
            return v.n > 0
        raise OutOfSubset(f"line {line}: truth value of {v!r}")

    def to_bv64(self, v, line=0):
        if isinstance(v, VBV):
            if v.width == 64:
                return v.t
            return z3.ZeroExt(64 - v.width, v.t)
        if isinstance(v, (VInt, VBool)):
            c = smt.conc_int(self.to_int(v))
            if c is None:
                return z3.Int2BV(self.to_int(v), 64)
            return z3.BitVecVal(c, 64)
        raise OutOfSubset(f"line {line}: bit operator on {v!r}")

    def is_num(self, v):
        return isinstance(v, (VInt, VReal, VBool, VBV))

    # value equality (for ==, in)
    def v_eq(self, a, b, line=0):
        if isinstance(a, VNone) or isinstance(b, VNone):
            return z3.BoolVal(isinstance(a, VNone) and isinstance(b, VNone))
        if isinstance(a, VStr) and isinstance(b, VStr):
            if a.s is not None and b.s is not None:
                return z3.BoolVal(a.s == b.s)
            ta = a.t if a.s is None else z3.StringVal(a.s)
            tb = b.t if b.s is None else z3.StringVal(b.s)
            return ta == tb
        if type(a).__name__ == "VBytes" and type(b).__name__ == "VBytes":
            return a.t == b.t
        if isinstance(a, VStr) or isinstance(b, VStr):
            return z3.BoolVal(False)
        if isinstance(a, VBV) and isinstance(b, VBV) and a.width == b.width:
            return a.t == b.t
        if isinstance(a, VBool) and isinstance(b, VBool):
            return a.t == b.t
        if isinstance(a, VDtype) and isinstance(b, VDtype):
            return z3.BoolVal(a.name == b.name)
        if isinstance(a, VTuple) and isinstance(b, VTuple):
            if len(a.items) != len(b.items):
                return z3.BoolVal(False)
            return z3.And([self.v_eq(x, y, line) for x, y in zip(a.items, b.items)] or [z3.BoolVal(True)])
        if isinstance(a, VObj) and isinstance(b, VObj):
            return z3.BoolVal(a.oid == b.oid)
        if self.is_num(a) and self.is_num(b):
            if isinstance(a, VReal) or isinstance(b, VReal):
                return self.to_real(a) == self.to_real(b)
            return self.to_int(a) == self.to_int(b)
        raise OutOfSubset(f"line {line}: equality between {a!r} and {b!r}")

    # ------------------------------------------------------------------ arithmetic
    def arith(self, op, a, b, st: State, line=0):
        """Binary arithmetic with Python semantics (ints unbounded, true division -> float)."""
        if isinstance(op, (ast.BitAnd, ast.BitOr, ast.BitXor, ast.LShift, ast.RShift)):
            if isinstance(a, VArr) and isinstance(b, VArr) and isinstance(op, (ast.BitAnd, ast.BitOr)) \
                    and st.hmeta[a.obj]["kind"] == "bool" and st.hmeta[b.obj]["kind"] == "bool":
                m = self.models.get("numpy.logical_and" if isinstance(op, ast.BitAnd) else "numpy.logical_or")
                return m(self, st, [a, b], {}, line)[0][1].value  # element-wise on boolean arrays
            if isinstance(a, VBool) and isinstance(b, VBool) and not isinstance(op, (ast.LShift, ast.RShift)):
                f = {ast.BitAnd: z3.And, ast.BitOr: z3.Or, ast.BitXor: z3.Xor}[type(op)]
                return VBool(f(a.t, b.t))
            ca, cb = (smt.conc_int(self.to_int(x)) if isinstance(x, (VInt, VBool)) else None for x in (a, b))
            if ca is not None and cb is not None:
                pyop = {ast.BitAnd: int.__and__, ast.BitOr: int.__or__, ast.BitXor: int.__xor__,
                        ast.LShift: int.__lshift__, ast.RShift: int.__rshift__}[type(op)]
                return VInt(pyop(ca, cb))
            if isinstance(op, ast.LShift) and isinstance(a, VInt) and cb is not None and cb >= 0:
                return VInt(a.t * (1 << cb))
            x, y = self.to_bv64(a, line), self.to_bv64(b, line)
            if isinstance(op, ast.BitAnd):
                return VBV(x & y)
            if isinstance(op, ast.BitOr):
                return VBV(x | y)
            if isinstance(op, ast.BitXor):
                return VBV(x ^ y)
            if isinstance(op, ast.LShift):
                return VBV(x << y)
            return VBV(z3.LShR(x, y))  # unsigned operands (u1 promoted): logical shift
        if isinstance(a, VStr) and isinstance(b, VStr) and isinstance(op, ast.Add):
            if a.s is not None and b.s is not None:
                return VStr(a.s + b.s)
            raise OutOfSubset(f"line {line}: symbolic string concatenation")
        if type(a).__name__ == "VBytes" and type(b).__name__ == "VBytes" and isinstance(op, ast.Add):
            return type(a)(z3.Concat(a.t, b.t))
        if isinstance(a, (VArr, VArr2)) or isinstance(b, (VArr, VArr2)):
            return self.array_binop(op, a, b, st, line)
        if not (self.is_num(a) and self.is_num(b)):
            raise OutOfSubset(f"line {line}: arithmetic on {a!r}, {b!r}")
        real = isinstance(a, VReal) or isinstance(b, VReal)
        if isinstance(op, ast.Div):
            x, y = self.to_real(a), self.to_real(b)
            self.div_guard(st, y, line)
            return VReal(self.fl(st, x / y, 'div', x, y))
        if real:
            x, y = self.to_real(a), self.to_real(b)
            if isinstance(op, ast.Add):
                return VReal(self.fl(st, x + y, 'add', x, y))
            if isinstance(op, ast.Sub):
                return VReal(self.fl(st, x - y, 'sub', x, y))
            if isinstance(op, ast.Mult):
                return VReal(self.fl(st, x * y, 'mul', x, y))
            if isinstance(op, ast.FloorDiv):
                self.div_guard(st, y, line)
                k = smt.fresh("fl")
                q = x / y
                st.assume(z3.And(z3.ToReal(k) <= q, q < z3.ToReal(k) + 1))
                return VReal(z3.ToReal(k))
            if isinstance(op, ast.Pow):
                cb = smt.conc_real(y)
                if cb is not None and cb.denominator == 1 and 0 <= cb <= 8:
                    r = z3.RealVal(1)
                    for _ in range(int(cb)):
                        r = r * x
                    return VReal(r)
                return VReal(self.uf("pow", [x, y], REAL))
            if isinstance(op, ast.Mod):
                self.div_guard(st, y, line)
                k = smt.fresh("fl")
                q = x / y
                st.assume(z3.And(z3.ToReal(k) <= q, q < z3.ToReal(k) + 1))
                return VReal(x - z3.ToReal(k) * y)
            raise OutOfSubset(f"line {line}: float operator {op}")
        x, y = self.to_int(a), self.to_int(b)
        if isinstance(op, ast.Add):
            return VInt(x + y)
        if isinstance(op, ast.Sub):
            return VInt(x - y)
        if isinstance(op, ast.Mult):
            return VInt(self.mul_ite(x, y))
        if isinstance(op, (ast.FloorDiv, ast.Mod)):
            q, r = self.int_divmod(st, x, y, line)
            return VInt(q if isinstance(op, ast.FloorDiv) else r)
        if isinstance(op, ast.Pow):
            cb = smt.conc_int(y)
            ca = smt.conc_int(x)
            if cb is not None and cb >= 0 and (ca is not None or cb <= 8):
                if ca is not None:
                    return VInt(ca ** cb)
                r = z3.IntVal(1)
                for _ in range(cb):
                    r = r * x
                return VInt(smt.som(r))
            raise OutOfSubset(f"line {line}: integer power with symbolic exponent")
        raise OutOfSubset(f"line {line}: operator {op}")

    def mul_ite(self, x, y, depth=0):
        """x*y with if-then-else pushed outwards (products of plain terms normalise and abstract better)."""
        if depth < 3:
            for a, b in ((x, y), (y, x)):
                if z3.is_app_of(a, z3.Z3_OP_ITE) and not z3.is_int_value(b):
                    return z3.If(a.arg(0), self.mul_ite(a.arg(1), b, depth + 1), self.mul_ite(a.arg(2), b, depth + 1))
        return smt.som(x * y)

    def fl(self, st, r, op=None, x=None, y=None):
        """IEEE double rounding of one operation under the standard relative-error model (A-FLERR), when enabled.
        Exact cases carry no error term: a constant result, and scaling an integer-valued operand (< 2^53, stated
        magnitude bound) by a power of two."""
        if not getattr(self, "float_err", False) or self.spec_depth or smt.conc_real(r) is not None:
            return r
        if op in ("mul", "div"):
            def pow2(t):
                c = smt.conc_real(t)
                if c is None or c <= 0:
                    return False
                n, d = c.numerator, c.denominator
                return (n & (n - 1)) == 0 and (d & (d - 1)) == 0

            def intval(t):
                return z3.is_app_of(smt.simp(t), z3.Z3_OP_TO_REAL)
            if (pow2(y) and intval(x)) or (op == "mul" and pow2(x) and intval(y)):
                return r
        e = smt.fresh("eps", REAL)
        u = z3.RealVal("1/9007199254740992")  # 2^-53
        st.assume(z3.And(-u <= e, e <= u))
        self.assume_tag("A-FLERR")
        return r * (1 + e)

    def div_guard(self, st, y, line):
        c = smt.conc_real(y) if y.sort() == REAL else None
        if c is not None and c != 0:
            return
        if self.spec_depth == 0:
            self.oblig(st, f"zerodiv@{line}", y != 0, line)
            st.assume(y != 0)

    def int_divmod(self, st: State, x, y, line=0):
        """Python floor division/modulo; symbolic divisors use quotient/remainder witnesses."""
        cy = smt.conc_int(y)
        cx = smt.conc_int(x)
        if cy is not None and cx is not None and cy != 0:
            return z3.IntVal(cx // cy), z3.IntVal(cx % cy)
        if cy is not None and cy > 0:
            return x / y, x % y  # z3 div/mod by a positive constant is floor semantics
        if cy is None and self.spec_depth == 0:
            self.oblig(st, f"zerodiv@{line}", y != 0, line)
            st.assume(y != 0)
        x, y = smt.som(x), smt.som(y)
        fd = z3.Function("fdiv", INT, INT, INT)
        fm = z3.Function("fmod", INT, INT, INT)
        if getattr(self, "under_binder", 0):
            # inside a point-wise lifted array expression the witnesses must be functions of the element index
            a_, b_ = z3.Ints("x_d y_d")
            ax = z3.ForAll([a_, b_], z3.Implies(b_ > 0, z3.And(a_ == b_ * fd(a_, b_) + fm(a_, b_), 0 <= fm(a_, b_),
                                                                fm(a_, b_) < b_,
                                                                z3.Implies(a_ >= 0, z3.And(fd(a_, b_) >= 0, fd(a_, b_) <= a_)))),
                           patterns=[fd(a_, b_)])
            if not any(p is self.__dict__.get("_fdiv_ax") for p in st.pc):
                self._fdiv_ax = ax
                st.assume(ax)
            self.assume_tag("AXIOM:floor division (definition)")
            return fd(x, y), fm(x, y)
        if z3.is_app_of(x, z3.Z3_OP_ITE) and cy is None:
            c = x.arg(0)
            q1, r1 = self.int_divmod(st, x.arg(1), y, line)
            q2, r2 = self.int_divmod(st, x.arg(2), y, line)
            return z3.If(c, q1, q2), z3.If(c, r1, r2)
        fq = smt.factor_out(x, y)
        if fq is not None:
            # x is syntactically (fq * y): exact division (y != 0 established above or guarded)
            q0 = smt.fresh("q")
            st.assume(z3.Implies(y != 0, q0 == fq))
            return q0, z3.If(y != 0, z3.IntVal(0), smt.fresh("r"))
        key = (x.get_id(), y.get_id())
        memo = self.__dict__.setdefault("_divmemo", {})
        if key in memo:
            q, r, fact, _keep = memo[key]
        else:
            q, r = smt.fresh("q"), smt.fresh("r")
            # the witnesses are the values of the (axiomatised) floor division/modulo functions: by uniqueness of
            # integer division this adds nothing but a name, and it ties code-side `%` to spec-side `%`
            fact = z3.Implies(y != 0, z3.And(x == smt.som(q * y) + r, z3.Implies(y > 0, z3.And(q == fd(x, y), r == fm(x, y))),
                                             z3.If(y > 0, z3.And(0 <= r, r < y), z3.And(y < r, r <= 0)),
                                             # redundant consequences (help the non-linear core)
                                             z3.Implies(z3.And(y > 0, x >= 0), z3.And(q >= 0, q <= x)),
                                             z3.Implies(z3.And(y > 0, x < 0), q < 0)))
            memo[key] = (q, r, fact, (x, y))
        st.assume(fact)
        return q, r

    def entails(self, st, cond, timeout_ms=400):
        """Quick side query: is `cond` implied by the path condition? (False on unknown)"""
        c = smt.conc_bool(cond)
        if c is not None:
            return c
        with smt.side_query():
            r = smt.check_valid(st.pc, cond, timeout_ms=timeout_ms, want_model=False, use_cvc5=False)
        return r.status == "proved"

    def writable(self, st, cont, line=0):
        """Container (VDict / VList) about to be mutated in state `st`. One created before the latest fork of `st` may be
        shared with a sibling path: it is copied and every reference in this state (locals, object fields, one level of
        nesting) is rebound to the copy, so the mutation stays on this path. Inside an inlined call the caller's locals
        are not reachable from here, so that case is refused rather than modelled wrongly."""
        from .values import VDict, VList, VTuple
        if getattr(cont, "born", 0) > getattr(st, "fork_epoch", 0):
            return cont
        if self.inline_depth > 0:
            raise OutOfSubset(f"line {line}: a container that predates a path split is mutated inside an inlined call")
        new = VDict(cont.d) if isinstance(cont, VDict) else VList(cont.items)

        def swap(v):
            if v is cont:
                return new
            if isinstance(v, (VList, VTuple)) and any(x is cont for x in v.items):
                v2 = type(v)([new if x is cont else x for x in v.items])
                return v2
            if isinstance(v, VDict) and any(x is cont for x in v.d.values()):
                return VDict({k: (new if x is cont else x) for k, x in v.d.items()})
            return v
        for k in list(st.env):
            st.env[k] = swap(st.env[k])
        for oid in list(st.objs):
            st.objs[oid] = {k: swap(v) for k, v in st.objs[oid].items()}
        return new

    def uf(self, name, args, ret):
        f = z3.Function(name, *[a.sort() for a in args], ret)
        self.assume_tag(f"UF:{name}")
        return f(*args)

    def trunc_to_int(self, st: State, x):
        """int(float): truncation toward zero."""
        c = smt.conc_real(x)
        if c is not None:
            return z3.IntVal(int(c))
        ie = smt.as_int_expr(x)
        if ie is not None:
            return smt.som(ie)  # an integer-valued real expression: int() is exact
        xs_ = smt.simp(x)
        # int(I * p/q) with an integer term I: exact integer arithmetic (truncation toward zero)
        num = None
        if z3.is_mul(xs_) and xs_.num_args() == 2:
            a0, a1 = xs_.arg(0), xs_.arg(1)
            for cst, oth in ((a0, a1), (a1, a0)):
                if z3.is_rational_value(cst) and z3.is_app_of(oth, z3.Z3_OP_TO_REAL):
                    num = (cst.numerator_as_long(), cst.denominator_as_long(), oth.arg(0))
        elif z3.is_app_of(xs_, z3.Z3_OP_TO_REAL):
            return xs_.arg(0)
        if num is not None:
            p_, q_, I = num
            t = smt.som(I * p_)
            return z3.If(t >= 0, t / q_, -((-t) / q_))
        k = smt.fresh("tr")
        kr = z3.ToReal(k)
        st.assume(z3.If(x >= 0, z3.And(kr <= x, x < kr + 1), z3.And(kr - 1 < x, x <= kr)))
        return k

    def round_half_even(self, st: State, x):
        k, m = smt.fresh("rd"), smt.fresh("rdm")
        kr = z3.ToReal(k)
        st.assume(z3.And(kr - z3.RealVal("1/2") <= x, x <= kr + z3.RealVal("1/2")))
        st.assume(z3.Implies(z3.Or(x - kr == z3.RealVal("1/2"), kr - x == z3.RealVal("1/2")), k == 2 * m))
        return k

    # ------------------------------------------------------------------ arrays
    def elem_wrap(self, raw, kind):
        if kind == "bv8":
            return VBV(raw)
        if kind == "int":
            return VInt(raw)
        if kind == "real":
            return VReal(raw)
        return VBool(raw)

    def arr_index_term(self, a: VArr, k):
        return smt.som(a.off + a.stride * k)

    def load(self, st: State, a: VArr, k, line=0, check=True, heap=None):
        if check and self.spec_depth == 0 and st.hmeta[a.obj].get("zerod_if") is not None:
            self.oblig(st, f"index@{line}", z3.Not(st.hmeta[a.obj]["zerod_if"]), line,
                       label="a 0-d array (squeezed single element) cannot be indexed (IndexError)")
        if check and self.spec_depth == 0:
            self.oblig(st, f"index@{line}", z3.And(0 <= k, k < a.n), line)
            st.assume(z3.And(0 <= k, k < a.n))
        idx = self.arr_index_term(a, k)
        meta = st.hmeta[a.obj]
        h = (heap if heap is not None else st.heap)[a.obj]
        raw = z3.Select(h, idx)
        if st.acc is not None and self.spec_depth == 0:
            st.acc.append(("r", a.obj, idx, list(st.pc), line))
        v = self.elem_wrap(raw, meta["kind"])
        if meta["kind"] == "int" and meta.get("dtype") in DTYPE_RANGE and self.spec_depth == 0:
            lo, hi = DTYPE_RANGE[meta["dtype"]]
            st.assume(z3.And(lo <= raw, raw <= hi))
        return v

    def conv_store(self, st: State, v, kind, dtype, line=0):
        """Value conversion at a typed store (numba/numpy cast)."""
        if kind == "bv8":
            if isinstance(v, VBV):
                return z3.Extract(7, 0, v.t) if v.width > 8 else v.t
            c = smt.conc_int(self.to_int(v, line))
            if c is not None:
                return z3.BitVecVal(c & 255, 8)
            return z3.Int2BV(self.to_int(v, line), 8)
        if kind == "int":
            if isinstance(v, VReal):
                t = self.trunc_to_int(st, v.t)
            else:
                t = self.to_int(v, line)
            if dtype in DTYPE_RANGE:
                lo, hi = DTYPE_RANGE[dtype]
                c = smt.conc_int(t)
                if c is not None and lo <= c <= hi:
                    return z3.IntVal(c)
                if lo == 0:
                    return z3.If(z3.And(0 <= t, t <= hi), t, t % (hi + 1))
                span = hi - lo + 1
                return z3.If(z3.And(lo <= t, t <= hi), t, ((t - lo) % span) + lo)
            return t
        if kind == "real":
            return self.to_real(v, line)
        if kind == "bool":
            return self.to_bool(v, line)
        raise OutOfSubset(f"store kind {kind}")

    def store(self, st: State, a: VArr, k, v, line=0, check=True):
        if check:
            self.oblig(st, f"index@{line}", z3.And(0 <= k, k < a.n), line)
            st.assume(z3.And(0 <= k, k < a.n))
        meta = st.hmeta[a.obj]
        idx = self.arr_index_term(a, k)
        raw = self.conv_store(st, v, meta["kind"], meta.get("dtype"), line)
        if st.acc is not None:
            st.acc.append(("w", a.obj, idx, list(st.pc), line))
        st.heap[a.obj] = z3.Store(st.heap[a.obj], idx, raw)

    def slice_view(self, st: State, a: VArr, lo, hi, step, line=0):
        """a[lo:hi:step] with numpy clamping; returns a view."""
        n = a.n
        if step is not None:
            cs = smt.conc_int(step)
            if cs == -1 and lo is None and hi is None:
                return VArr(a.obj, smt.som(a.off + a.stride * (n - 1)), smt.som(-a.stride), n)
            if cs != 1:
                raise OutOfSubset(f"line {line}: slice step {step}")

        if (lo is None or smt.conc_int(lo) != 0 or True) and not (lo is None and hi is None):
            # common case: bounds provably inside the array -> no clamping terms
            l0 = z3.IntVal(0) if lo is None else lo
            h0 = n if hi is None else hi
            if self.entails(st, z3.And(0 <= l0, l0 <= h0, h0 <= n)):
                return VArr(a.obj, smt.som(a.off + a.stride * l0), a.stride, smt.som(h0 - l0))

        def norm(x, default):
            if x is None:
                return default
            c = smt.conc_int(x)
            if c is not None and c >= 0:
                return z3.If(x <= n, x, n) if smt.conc_int(n) is None else z3.IntVal(min(c, smt.conc_int(n)))
            return z3.If(x < 0, z3.If(x + n < 0, z3.IntVal(0), x + n), z3.If(x <= n, x, n))

        l2 = smt.simp(norm(lo, z3.IntVal(0)))
        h2 = smt.simp(norm(hi, n))
        ln = smt.simp(z3.If(h2 >= l2, h2 - l2, z3.IntVal(0)))
        return VArr(a.obj, smt.som(a.off + a.stride * l2), a.stride, ln)

    def assign_slice(self, st: State, dst: VArr, src, line=0):
        """dst[:] = src  (src array of equal length, or scalar broadcast)."""
        meta = st.hmeta[dst.obj]
        old = st.heap[dst.obj]
        j = z3.Int("j!sl")
        cstride = smt.conc_int(dst.stride)
        if cstride not in (1, -1):
            # general stride: k = (j - off)/stride must be integral
            k = smt.fresh("k")
            raise OutOfSubset(f"line {line}: slice store with stride {dst.stride}")
        if cstride == 1:
            k = j - dst.off
        else:
            k = dst.off - j
        inside = z3.And(0 <= k, k < dst.n)
        if isinstance(src, VArr):
            smeta = st.hmeta[src.obj]
            self.oblig(st, f"shape@{line}", src.n == dst.n, line, label="broadcast")
            st.assume(src.n == dst.n)
            sraw = z3.Select(st.heap[src.obj], self.arr_index_term(src, k))
            sval = self.elem_wrap(sraw, smeta["kind"])
            if st.acc is not None:
                kk = smt.fresh("ks")
                st.acc.append(("r", src.obj, self.arr_index_term(src, kk),
                               list(st.pc) + [0 <= kk, kk < src.n], line))
        else:
            sval = src
        raw = self.conv_store(st, sval, meta["kind"], meta.get("dtype"), line)
        st.heap[dst.obj] = z3.Lambda([j], z3.If(inside, raw, z3.Select(old, j)))
        if st.acc is not None:
            kk = smt.fresh("kd")
            st.acc.append(("w", dst.obj, self.arr_index_term(dst, kk), list(st.pc) + [0 <= kk, kk < dst.n], line))

    def array_binop(self, op, a, b, st, line):
        """Point-wise lift of arithmetic on 1-D arrays -> fresh array defined by a lambda."""
        arr = a if isinstance(a, VArr) else b
        if isinstance(a, VArr2) or isinstance(b, VArr2):
            raise OutOfSubset(f"line {line}: 2-D array arithmetic")
        if isinstance(a, VArr) and isinstance(b, VArr):
            self.oblig(st, f"shape@{line}", a.n == b.n, line, label="broadcast")
            st.assume(a.n == b.n)
        j = z3.Int("j!bo")

        def el(x):
            if isinstance(x, VArr):
                return self.elem_wrap(z3.Select(st.heap[x.obj], self.arr_index_term(x, j)), st.hmeta[x.obj]["kind"])
            return x

        sub = State.fork(st)
        sub.acc = None
        self.spec_depth += 1
        self.under_binder = getattr(self, "under_binder", 0) + 1
        try:
            r = self.arith(op, el(a), el(b), sub, line)
        finally:
            self.spec_depth -= 1
            self.under_binder -= 1
        st.pc.extend(p for p in sub.pc[len(st.pc):] if p is getattr(self, "_fdiv_ax", None))
        kind = "real" if isinstance(r, VReal) else ("int" if isinstance(r, VInt) else "bool")
        raw = r.t
        obj = self.new_obj(st, kind, None, "tmp", contents=z3.Lambda([j], raw))
        # numpy: an operation on 0-d operands only (scalars count as 0-d) is 0-d again
        def z0(x):
            if isinstance(x, VArr):
                f = st.hmeta[x.obj].get("zerod_if")
                return f if f is not None else z3.BoolVal(False)
            return z3.BoolVal(True)
        zr = smt.simp(z3.And(z0(a), z0(b)))
        if not z3.is_false(zr):
            st.hmeta[obj]["zerod_if"] = zr
        if isinstance(a, VArr) and isinstance(b, VArr):
            fa, fb = st.hmeta[a.obj].get("fftlen"), st.hmeta[b.obj].get("fftlen")
            if fa is not None and fb is not None and self.entails(st, fa == fb):
                st.hmeta[obj]["fftlen"] = fa  # product of two spectra of the same transform length
                st.hmeta[obj]["dtype"] = "c8"
        return VArr(obj, z3.IntVal(0), z3.IntVal(1), arr.n)
