"""Assumed contracts of library calls (A-NP, A-TRACK ...): the trusted base, listed in evidence."""
from __future__ import annotations

import ast

import z3

from . import smt
from .calls import VOpaqueArr, VOpaqueBuf
from .engine import NP_DTYPES, STR_DTYPES
from .source import OutOfSubset
from .state import Outcome, State
from .values import *  # noqa: F403
from .values import DTYPE_KIND

MODELS = {}


def model(*names):
    def deco(f):
        for n in names:
            MODELS[n] = f
        return f
    return deco


def val(st, v):
    return [(st, Outcome("value", v))]


def dtype_of(eng, v, default="f8"):
    if v is None:
        return default
    if isinstance(v, VDtype):
        return v.name
    if isinstance(v, VStr) and v.s in STR_DTYPES:
        return STR_DTYPES[v.s]
    if isinstance(v, VFunc) and v.kind == "builtin" and v.ref in ("int", "float", "bool"):
        return {"int": "i8", "float": "f8", "bool": "b1"}[v.ref]
    raise OutOfSubset(f"dtype {v!r}")


def kind_of_dtype(eng, dt, like_kind=None):
    if like_kind is not None:
        return like_kind
    return DTYPE_KIND.get(dt, "real")


def zero_of(kind):
    return {"int": z3.IntVal(0), "real": z3.RealVal(0), "bool": z3.BoolVal(False),
            "bv8": z3.BitVecVal(0, 8)}[kind]


def shape_len(eng, shape, line):
    if isinstance(shape, (VTuple, VList)):
        return [eng.to_int(x, line) for x in shape.items]
    return [eng.to_int(shape, line)]


def new_array(eng, st, dims, kind, dtype, contents, name):
    obj = eng.new_obj(st, kind, dtype, name, contents=contents)
    if len(dims) == 1:
        st.assume(dims[0] >= 0)
        return VArr(obj, z3.IntVal(0), z3.IntVal(1), dims[0])
    if len(dims) == 2:
        return VArr2(obj, z3.IntVal(0), dims[1], z3.IntVal(1), dims[0], dims[1])
    raise OutOfSubset("array rank > 2")


def _alloc(eng, st, args, kwargs, line, fill):
    eng.assume_tag("A-NP")
    shape = args[0] if args else kwargs.get("shape")
    dt = dtype_of(eng, kwargs.get("dtype", args[1] if len(args) > 1 else None))
    kind = kind_of_dtype(eng, dt)
    if kind == "int" and getattr(eng, "bv_u1", False) and dt == "u1":
        kind = "bv8"
    dims = shape_len(eng, shape, line)
    for d in dims:
        # numpy raises ValueError on negative dimensions
        eng.oblig(st, f"alloc@{line}", d >= 0, line, label="nonneg")
    if fill == "zeros":
        contents = z3.K(INT, zero_of(kind))
    elif fill == "ones":
        one = {"int": z3.IntVal(1), "real": z3.RealVal(1), "bool": z3.BoolVal(True), "bv8": z3.BitVecVal(1, 8)}[kind]
        contents = z3.K(INT, one)
    else:
        contents = None  # np.empty: arbitrary contents
    out = new_array(eng, st, dims, kind, dt, contents, fill)
    if fill in ("zeros", "ones"):
        st.hmeta[out.obj]["finite"] = True  # ghost: no NaN/inf elements (pvc/npelem.py)
    return val(st, out)


@model("numpy.zeros")
def np_zeros(eng, st, args, kwargs, line):
    return _alloc(eng, st, args, kwargs, line, "zeros")


@model("numpy.empty")
def np_empty(eng, st, args, kwargs, line):
    return _alloc(eng, st, args, kwargs, line, "empty")


@model("numpy.ones")
def np_ones(eng, st, args, kwargs, line):
    return _alloc(eng, st, args, kwargs, line, "ones")


@model("numpy.empty_like", "numpy.zeros_like")
def np_empty_like(eng, st, args, kwargs, line, zeros=False):
    eng.assume_tag("A-NP")
    a = args[0]
    meta = st.hmeta[a.obj]
    kind, dt = meta["kind"], meta.get("dtype")
    if "dtype" in kwargs:
        dt = dtype_of(eng, kwargs["dtype"])
        kind = kind_of_dtype(eng, dt)
    dims = [a.n] if isinstance(a, VArr) else [a.n0, a.n1]
    return val(st, new_array(eng, st, dims, kind, dt, None, "like"))


@model("numpy.sum")
def np_sum(eng, st, args, kwargs, line):
    eng.assume_tag("A-NP")
    a = args[0]
    if isinstance(a, VArr) and "axis" not in kwargs and len(args) == 1:
        return val(st, array_sum(eng, st, a, line))
    raise OutOfSubset(f"line {line}: np.sum form")


@model("numpy.mean")
def np_mean(eng, st, args, kwargs, line):
    """np.mean of a non-empty 1-D array: its sum divided by its length."""
    eng.assume_tag("A-NP")
    a = args[0]
    if isinstance(a, VArr) and "axis" not in kwargs and len(args) == 1:
        eng.oblig(st, f"mean@{line}", a.n >= 1, line, label="mean of a non-empty array")
        st.assume(a.n >= 1)
        tot = array_sum(eng, st, a, line)
        return val(st, VReal(eng.to_real(tot) / z3.ToReal(a.n)))
    raise OutOfSubset(f"line {line}: np.mean form")


def array_sum(eng, st, a, line):
    """Sum of a 1-D view = spec function ssum(contents, base, stride, n) (A-NP: np.sum is the sum)."""
    spec = eng.specs.get("ssum")
    if spec is None:
        raise OutOfSubset("ssum spec not loaded")
    kind = st.hmeta[a.obj]["kind"]
    if st.acc is not None:
        kk = smt.fresh("ksum")
        st.acc.append(("r", a.obj, eng.arr_index_term(a, kk), list(st.pc) + [0 <= kk, kk < a.n], line))
    eng.spec_depth += 1
    try:
        r = spec.apply(eng, st, [VOpaqueArr(st.heap[a.obj]), VInt(a.off), VInt(a.stride), VInt(a.n)], line)
    finally:
        eng.spec_depth -= 1
    return r


@model("arrmethod.sum")
def arr_sum(eng, st, args, kwargs, line):
    a = args[0]
    if isinstance(a, VArr) and len(args) == 1 and not kwargs:
        eng.assume_tag("A-NP")
        return val(st, array_sum(eng, st, a, line))
    raise OutOfSubset(f"line {line}: .sum form")


@model("rich.progress.track")
def track(eng, st, args, kwargs, line):
    eng.assume_tag("A-TRACK")
    return val(st, args[0])


@model("numpy.sqrt")
def np_sqrt(eng, st, args, kwargs, line):
    x = eng.to_real(args[0], line)
    r = eng.uf("sqrt", [x], REAL)
    st.assume(z3.Implies(x >= 0, z3.And(r >= 0, r * r == x)))
    return val(st, VReal(r))


@model("numpy.ceil")
def np_ceil(eng, st, args, kwargs, line):
    v = args[0]
    if isinstance(v, VReal):
        k = smt.fresh("ceil")
        st.assume(z3.And(z3.ToReal(k) - 1 < v.t, v.t <= z3.ToReal(k)))
        return val(st, VReal(z3.ToReal(k)))
    return val(st, VReal(eng.to_real(v)))


RNDF = z3.Function("rndf", REAL, INT)


@model("numpy.round")
def np_round(eng, st, args, kwargs, line):
    """np.round of a real array: element-wise the uninterpreted integer-valued function rndf (deterministic; the
    rounding mode itself is not modelled)."""
    a = args[0]
    if isinstance(a, VArr) and st.hmeta[a.obj]["kind"] == "real":
        eng.assume_tag("A-NP")
        j = z3.Int("j!rd")
        el = z3.ToReal(RNDF(z3.Select(st.heap[a.obj], eng.arr_index_term(a, j))))
        return val(st, new_array(eng, st, [a.n], "real", st.hmeta[a.obj].get("dtype"), z3.Lambda([j], el), "round"))
    raise OutOfSubset(f"line {line}: np.round of {a!r}")


def sympad_term(eng, st, a, left):
    """Raw array term of np.pad(a, (left, right), "symmetric"): element j is a[sym(j - left)] where sym reflects the
    index symmetrically about both ends (edge sample repeated; period 2n)."""
    j = z3.Int("j!pad")
    n = a.n
    m = (j - left) % (2 * n)
    src = z3.If(m < n, m, 2 * n - 1 - m)
    return z3.Lambda([j], z3.Select(st.heap[a.obj], eng.arr_index_term(a, src)))


@model("numpy.pad")
def np_pad(eng, st, args, kwargs, line):
    eng.assume_tag("A-NP")
    a, width = args[0], args[1]
    mode = args[2] if len(args) > 2 else kwargs.get("mode")
    if not (isinstance(a, VArr) and isinstance(width, VTuple) and len(width.items) == 2 and isinstance(mode, VStr)
            and mode.s == "symmetric"):
        raise OutOfSubset(f"line {line}: np.pad form")
    left, right = (eng.to_int(w, line) for w in width.items)
    eng.oblig(st, f"pad@{line}", z3.And(left >= 0, right >= 0), line, label="non-negative pad widths (ValueError)")
    st.assume(z3.And(left >= 0, right >= 0))
    # numpy cannot reflect an empty array
    eng.oblig(st, f"pad@{line}", z3.Or(a.n >= 1, z3.And(left == 0, right == 0)), line, label="non-empty input")
    st.assume(a.n >= 1)
    meta = st.hmeta[a.obj]
    return val(st, new_array(eng, st, [smt.som(a.n + left + right)], meta["kind"], meta.get("dtype"),
                             sympad_term(eng, st, a, left), "pad"))


MOVE = {}


def move_fn(kind):
    if kind not in MOVE:
        MOVE[kind] = z3.Function("move_" + kind, z3.ArraySort(INT, REAL), INT, INT, REAL)
    return MOVE[kind]


def _move(kind):
    def mdl(eng, st, args, kwargs, line):
        """bottleneck.move_mean / move_median(a, window): element k >= window-1 is the mean / median of
        a[k-window+1 .. k] (uninterpreted function of the array, the first index and the width); earlier elements
        are NaN (left unconstrained)."""
        eng.assume_tag("A-NP")
        a = args[0]
        w = eng.to_int(args[1] if len(args) > 1 else kwargs["window"], line)
        if not (isinstance(a, VArr) and st.hmeta[a.obj]["kind"] == "real" and smt.conc_int(a.stride) == 1):
            raise OutOfSubset(f"line {line}: move_{kind} form")
        eng.oblig(st, f"move@{line}", z3.And(w >= 1, w <= a.n), line, label="1 <= window <= len (ValueError)")
        st.assume(z3.And(w >= 1, w <= a.n))
        k = z3.Int("k!mv")
        early = z3.Const(f"nan_{kind}", z3.ArraySort(INT, REAL))
        base = st.heap[a.obj]
        if smt.conc_int(a.off) != 0:
            raise OutOfSubset(f"line {line}: move_{kind} of a view")
        el = z3.If(k >= w - 1, move_fn(kind)(base, k - w + 1, w), z3.Select(early, k))
        return val(st, new_array(eng, st, [a.n], "real", st.hmeta[a.obj].get("dtype"), z3.Lambda([k], el), "move"))
    return mdl


MODELS["bottleneck.move_mean"] = _move("mean")
MODELS["bottleneck.move_median"] = _move("median")


@model("numpy.arange")
def np_arange(eng, st, args, kwargs, line):
    eng.assume_tag("A-NP")
    dt = dtype_of(eng, kwargs.get("dtype"), "i8")
    a = [eng.to_int(x, line) for x in args]
    lo, hi = (z3.IntVal(0), a[0]) if len(a) == 1 else (a[0], a[1])
    kind = kind_of_dtype(eng, dt)
    j = z3.Int("j!ar")
    elem = (lo + j) if kind == "int" else z3.ToReal(lo + j)
    n = smt.simp(z3.If(hi > lo, hi - lo, z3.IntVal(0)))
    return val(st, new_array(eng, st, [n], kind, dt, z3.Lambda([j], elem), "arange"))


@model("numba.prange")
def nb_prange(eng, st, args, kwargs, line):
    return eng.call_builtin("prange", args, kwargs, st, line)


@model("listmethod.append")
def list_append(eng, st, args, kwargs, line):
    eng.writable(st, args[0], line).items.append(args[1])
    return val(st, NONE)


@model("seqmethod.append")
def seq_append(eng, st, args, kwargs, line):
    """append on a list of symbolic length: rebinding every alias in this state to the longer sequence"""
    old, item = args[0], args[1]
    n0, f0 = old.n, old.elem
    new = VSeq(smt.som(n0 + 1), lambda k: eng.ite(k == n0, item, f0(k)) if not z3.is_true(smt.simp(k == n0)) else item,
               last=(n0, f0, item))
    for name, v in list(st.env.items()):
        if v is old:
            st.env[name] = new
    return val(st, NONE)


@model("dictmethod.update")
def dict_update(eng, st, args, kwargs, line):
    d, other = args[0], args[1]
    if not isinstance(other, VDict):
        raise OutOfSubset(f"line {line}: dict.update({other!r})")
    eng.writable(st, d, line).d.update(other.d)
    return val(st, NONE)


@model("dictmethod.copy")
def dict_copy(eng, st, args, kwargs, line):
    return val(st, VDict(dict(args[0].d)))


@model("dictmethod.get")
def dict_get(eng, st, args, kwargs, line):
    d, k = args[0], args[1]
    default = args[2] if len(args) > 2 else NONE
    if isinstance(k, VStr) and k.s is not None:
        return val(st, d.d.get(k.s, default))
    raise OutOfSubset(f"line {line}: dict.get with symbolic key")


@model("dictmethod.items")
def dict_items(eng, st, args, kwargs, line):
    return val(st, VList([VTuple([VStr(k) if isinstance(k, str) else VInt(k), v]) for k, v in args[0].d.items()]))


@model("numpy.dtype")
def np_dtype(eng, st, args, kwargs, line):
    return val(st, VDtype(dtype_of(eng, args[0])))


@model("arrmethod.reshape")
def arr_reshape(eng, st, args, kwargs, line):
    eng.assume_tag("A-NP")
    a = args[0]
    dims = args[1:]
    if len(dims) == 1 and isinstance(dims[0], (VTuple, VList)):
        dims = dims[0].items
    if isinstance(a, VArr2) and smt.conc_int(a.s1) == 1 and eng.entails(st, a.s0 == a.n1):
        # C-contiguous 2-D view: reshape acts on its row-major flattening (no copy)
        a = VArr(a.obj, a.off, z3.IntVal(1), smt.som(a.n0 * a.n1))
    if not isinstance(a, VArr) or len(dims) != 2 or smt.conc_int(a.stride) != 1:
        raise OutOfSubset(f"line {line}: reshape form")
    n0, n1 = (eng.to_int(d, line) for d in dims)
    if smt.conc_int(n0) == -1 and smt.conc_int(n1) != -1:
        # reshape(-1, k): the row count is inferred; the length must be a multiple of k
        eng.oblig(st, f"shape@{line}", z3.And(n1 >= 1, a.n % z3.If(n1 >= 1, n1, 1) == 0), line, label="reshape size (ValueError)")
        st.assume(n1 >= 1)
        q, _r = eng.int_divmod(st, a.n, n1, line)
        n0 = q
    eng.oblig(st, f"shape@{line}", smt.som(n0 * n1) == a.n, line, label="reshape size (ValueError)")
    st.assume(smt.som(n0 * n1) == a.n)
    return val(st, VArr2(a.obj, a.off, n1, z3.IntVal(1), n0, n1))


@model("arrmethod.transpose")
def arr_transpose(eng, st, args, kwargs, line):
    a = args[0]
    if isinstance(a, VArr2) and len(args) == 1:
        return val(st, VArr2(a.obj, a.off, a.s1, a.s0, a.n1, a.n0))
    raise OutOfSubset(f"line {line}: transpose form")


@model("arrmethod.ravel")
def arr_ravel(eng, st, args, kwargs, line):
    a = args[0]
    if isinstance(a, VArr) and smt.conc_int(a.stride) == 1:
        return val(st, a)
    if isinstance(a, VArr):
        raise OutOfSubset(f"line {line}: ravel of a strided view (copy)")
    if isinstance(a, VArr2) and smt.conc_int(a.s1) == 1 and eng.entails(st, a.s0 == a.n1):
        return val(st, VArr(a.obj, a.off, z3.IntVal(1), smt.som(a.n0 * a.n1)))
    if isinstance(a, VArr2):
        # ravel of a non-contiguous 2-D view (e.g. a transposed block) copies in row-major order of the VIEW:
        # a fresh array R with R[n1*i + j] == view[i, j] for every in-range (i, j) and length n0*n1 (A-NP)
        eng.assume_tag("A-NP")
        kind = st.hmeta[a.obj]["kind"]
        r = new_array(eng, st, [smt.som(a.n0 * a.n1)], kind, st.hmeta[a.obj].get("dtype"), None, "ravel")
        i, j = z3.Int("i!rv"), z3.Int("j!rv")
        lhs = z3.Select(st.heap[r.obj], smt.som(a.n1 * i + j))
        rhs = z3.Select(st.heap[a.obj], smt.som(a.off + a.s0 * i + a.s1 * j))
        st.assume(z3.ForAll([i, j], z3.Implies(z3.And(0 <= i, i < a.n0, 0 <= j, j < a.n1), lhs == rhs), patterns=[lhs]))
        return val(st, r)
    raise OutOfSubset(f"line {line}: ravel of {a!r}")


@model("arrmethod.fill")
def arr_fill(eng, st, args, kwargs, line):
    """a.fill(v): a[:] = v"""
    a = args[0]
    if not isinstance(a, VArr):
        raise OutOfSubset(f"line {line}: fill of {a!r}")
    eng.assign_slice(st, a, args[1], line)
    return val(st, NONE)


@model("arrmethod.astype")
def arr_astype(eng, st, args, kwargs, line):
    """ndarray.astype(dtype[, copy]): element-wise C cast into a new array (the same array when nothing changes
    and copy=False)."""
    eng.assume_tag("A-NP")
    a = args[0]
    dt = dtype_of(eng, args[1] if len(args) > 1 else kwargs.get("dtype"))
    if not isinstance(a, VArr):
        raise OutOfSubset(f"line {line}: astype of {a!r}")
    meta = st.hmeta[a.obj]
    if meta.get("dtype") == dt:
        return val(st, a)
    kind = kind_of_dtype(eng, dt)
    j = z3.Int("j!as")
    el = eng.elem_wrap(z3.Select(st.heap[a.obj], eng.arr_index_term(a, j)), meta["kind"])
    sub = st.fork()
    eng.spec_depth += 1
    try:
        raw = eng.conv_store(sub, el, kind, dt, line)
    finally:
        eng.spec_depth -= 1
    st.pc.extend(p for p in sub.pc[len(st.pc):])
    return val(st, new_array(eng, st, [a.n], kind, dt, z3.Lambda([j], raw), "astype"))


@model("scalarmethod.astype")
def scalar_astype(eng, st, args, kwargs, line):
    """numpy scalar .astype(dtype): C cast of one value"""
    dt = VDtype(dtype_of(eng, args[1]))
    return val(st, eng.cast_scalar(dt, args[0], st, line))


@model("numpy.array")
def np_array(eng, st, args, kwargs, line):
    a = args[0]
    if isinstance(a, VArr) and "dtype" not in kwargs:
        return val(st, a)  # a copy with the same contents: callers here never write it
    raise OutOfSubset(f"line {line}: np.array({a!r})")


def _pointwise2(name):
    def f(eng, st, args, kwargs, line):
        eng.assume_tag("A-NP")
        a, b = args[0], args[1]
        arr = a if isinstance(a, VArr) else b
        if not isinstance(arr, VArr):
            raise OutOfSubset(f"line {line}: numpy.{name} of scalars")
        j = z3.Int("j!mm")

        def el(x):
            if isinstance(x, VArr):
                return eng.to_real(eng.elem_wrap(z3.Select(st.heap[x.obj], eng.arr_index_term(x, j)), st.hmeta[x.obj]["kind"]))
            return eng.to_real(x)
        x, y = el(a), el(b)
        raw = z3.If(x >= y, x, y) if name == "maximum" else z3.If(x <= y, x, y)
        return val(st, new_array(eng, st, [arr.n], "real", st.hmeta[arr.obj].get("dtype"), z3.Lambda([j], raw), name))
    return f


MODELS["numpy.maximum"] = _pointwise2("maximum")
MODELS["numpy.minimum"] = _pointwise2("minimum")


def _logical(name):
    def f(eng, st, args, kwargs, line):
        """np.logical_and / logical_or of boolean arrays (or a scalar), element-wise."""
        eng.assume_tag("A-NP")
        a, b = args[0], args[1]
        arr = a if isinstance(a, VArr) else b
        if not isinstance(arr, VArr):
            raise OutOfSubset(f"line {line}: numpy.{name} of scalars")
        if isinstance(a, VArr) and isinstance(b, VArr):
            eng.oblig(st, f"shape@{line}", a.n == b.n, line, label="broadcast")
            st.assume(a.n == b.n)
        j = z3.Int("j!lg")

        def el(x):
            if isinstance(x, VArr):
                if st.hmeta[x.obj]["kind"] != "bool":
                    raise OutOfSubset(f"line {line}: numpy.{name} of a non-boolean array")
                return z3.Select(st.heap[x.obj], eng.arr_index_term(x, j))
            return eng.to_bool(x)
        x, y = el(a), el(b)
        raw = z3.And(x, y) if name == "logical_and" else z3.Or(x, y)
        return val(st, new_array(eng, st, [arr.n], "bool", "b1", z3.Lambda([j], raw), name))
    return f


MODELS["numpy.logical_and"] = _logical("logical_and")
MODELS["numpy.logical_or"] = _logical("logical_or")


@model("numpy.logical_or.reduce")
def np_logical_or_reduce(eng, st, args, kwargs, line):
    items = args[0].items if isinstance(args[0], (VTuple, VList)) else None
    if not items:
        raise OutOfSubset(f"line {line}: logical_or.reduce form")
    acc = items[0]
    for x in items[1:]:
        acc = MODELS["numpy.logical_or"](eng, st, [acc, x], {}, line)[0][1].value
    return val(st, acc)


@model("numpy.roll")
def np_roll(eng, st, args, kwargs, line):
    """np.roll(a, k) of a 1-D array: result[j] == a[(j - k) mod n] (a new array)."""
    eng.assume_tag("A-NP")
    a = args[0]
    k = eng.to_int(args[1] if len(args) > 1 else kwargs["shift"], line)
    if not isinstance(a, VArr):
        raise OutOfSubset(f"line {line}: np.roll of {a!r}")
    meta = st.hmeta[a.obj]
    j = z3.Int("j!rl")
    n = a.n
    src = z3.If(n > 0, (j - k) % z3.If(n > 0, n, 1), 0)
    el = z3.Select(st.heap[a.obj], eng.arr_index_term(a, src))
    return val(st, new_array(eng, st, [n], meta["kind"], meta.get("dtype"), z3.Lambda([j], el), "roll"))


MED1 = z3.Function("med1", z3.ArraySort(INT, REAL), INT, INT, REAL)


@model("numpy.median")
def np_median(eng, st, args, kwargs, line):
    """np.median(a2d, axis=1): one value per row - med1(contents, first element of the row, row length), uninterpreted"""
    eng.assume_tag("A-NP")
    a = args[0]
    ax = kwargs.get("axis")
    if isinstance(a, VArr2) and isinstance(ax, VInt) and smt.conc_int(ax.t) == 1 and smt.conc_int(a.s1) == 1 \
            and st.hmeta[a.obj]["kind"] == "real":
        j = z3.Int("j!md")
        el = MED1(st.heap[a.obj], smt.som(a.off + a.s0 * j), a.n1)
        return val(st, new_array(eng, st, [a.n0], "real", "f8", z3.Lambda([j], el), "median"))
    raise OutOfSubset(f"line {line}: np.median form")


@model("numpy.atleast_1d")
def np_atleast_1d(eng, st, args, kwargs, line):
    """np.atleast_1d(a): a itself when it has a dimension, a one-element 1-d array for a 0-d value"""
    a = args[0]
    if isinstance(a, VArr):
        if st.hmeta[a.obj].get("zerod_if") is None:
            return val(st, a)
        meta = st.hmeta[a.obj]
        j = z3.Int("j!a1")
        out = new_array(eng, st, [a.n], meta["kind"], meta.get("dtype"),
                        z3.Lambda([j], z3.Select(st.heap[a.obj], eng.arr_index_term(a, j))), "atleast_1d")
        return val(st, out)
    raise OutOfSubset(f"line {line}: np.atleast_1d of {a!r}")


@model("numpy.conj")
def np_conj(eng, st, args, kwargs, line):
    a = args[0]
    if isinstance(a, VArr) and st.hmeta[a.obj].get("dtype") != "c8":
        return val(st, a)  # conjugate of real data is the data
    raise OutOfSubset(f"line {line}: np.conj of {a!r}")


@model("numpy.fft.rfft")
def np_rfft(eng, st, args, kwargs, line):
    """np.fft.rfft(a, n): n//2 + 1 bins (contents: an uninterpreted array; the numerics are outside the model)."""
    eng.assume_tag("A-FFT: numpy FFT output lengths (n//2+1 bins / n samples); values uninterpreted")
    a = args[0]
    n = eng.to_int(args[1], line) if len(args) > 1 and not isinstance(args[1], VNone) else a.n
    eng.oblig(st, f"fft@{line}", n >= 1, line, label="transform length >= 1 (ValueError)")
    st.assume(n >= 1)
    out = new_array(eng, st, [smt.som(n / 2 + 1)], "real", "c8", None, "rfft")
    st.hmeta[out.obj]["fftlen"] = n  # ghost: the forward transform length this spectrum belongs to
    return val(st, out)


@model("numpy.fft.irfft")
def np_irfft(eng, st, args, kwargs, line):
    """np.fft.irfft(a, n): n samples; n defaults to 2*(len(a)-1)."""
    eng.assume_tag("A-FFT: numpy FFT output lengths (n//2+1 bins / n samples); values uninterpreted")
    a = args[0]
    n = eng.to_int(args[1], line) if len(args) > 1 and not isinstance(args[1], VNone) else smt.som(2 * (a.n - 1))
    eng.oblig(st, f"fft@{line}", n >= 1, line, label="transform length >= 1 (ValueError)")
    st.assume(n >= 1)
    fl = st.hmeta[a.obj].get("fftlen") if isinstance(a, VArr) else None
    if fl is not None:
        # an inverse of another length is not the inverse of that forward transform (no error: wrong values)
        eng.oblig(st, f"fft@{line}", n == fl, line, label="inverse transform length equals the forward transform length")
    return val(st, new_array(eng, st, [n], "real", "f4", None, "irfft"))


@model("numpy.modf")
def np_modf(eng, st, args, kwargs, line):
    x = eng.to_real(args[0], line)
    ip = smt.fresh("ipart")
    fr = smt.fresh("frac", REAL)
    st.assume(z3.And(x == z3.ToReal(ip) + fr, z3.If(x >= 0, z3.And(0 <= fr, fr < 1), z3.And(-1 < fr, fr <= 0))))
    return val(st, VTuple([VReal(fr), VReal(z3.ToReal(ip))]))


@model("numpy.isclose")
def np_isclose(eng, st, args, kwargs, line):
    return val(st, VBool(smt.fresh("isclose", BOOL)))  # only ever guards a log message here


_reshape2 = MODELS["arrmethod.reshape"]


def _reshape_any(eng, st, args, kwargs, line):
    dims = args[1:]
    if len(dims) == 1 and isinstance(dims[0], (VTuple, VList)):
        dims = dims[0].items
    if len(dims) == 3:
        a = args[0]
        n = [eng.to_int(d, line) for d in dims]
        eng.oblig(st, f"shape@{line}", smt.som(n[0] * n[1] * n[2]) == a.n, line, label="reshape size (ValueError)")
        return val(st, VOpaque("3-D view"))
    return _reshape2(eng, st, args, kwargs, line)


MODELS["arrmethod.reshape"] = _reshape_any
MODELS["class:sigpyproc/foldedcube.py::FoldedData"] = lambda eng, st, args, kwargs, line: val(st, VOpaque("FoldedData"))
