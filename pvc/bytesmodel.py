"""Byte strings for the SIGPROC header codec (C05).

A bytes value is a z3 sequence (string sort: only concatenation, length and extraction are used).  struct.pack /
unpack and str.encode / bytes.decode are uninterpreted functions with the facts that make them mutually inverse:
  len(packI(n)) == 4,  unpackI(packI(n)) == n  for 0 <= n < 2**32;   len(b) == 4  ->  packI(unpackI(b)) == b
  dec(enc(s)) == s                              (utf-8 encode/decode are mutually inverse on str)
asserted as ground facts wherever the terms are built (no quantified string axioms).
A binary file object is an object {content: bytes, pos: int} (io.BytesIO / an open file positioned somewhere).
"""
from __future__ import annotations

import z3

from . import smt
from .models import MODELS, model, val
from .source import OutOfSubset
from .state import Outcome
from .values import *  # noqa: F403

SS = z3.StringSort()
PACK = {"I": (z3.Function("packI", INT, SS), 4), "d": (z3.Function("packD", REAL, SS), 8), "b": (z3.Function("packB", INT, SS), 1)}
UNPACK = {"I": z3.Function("unpackI", SS, INT), "d": z3.Function("unpackD", SS, REAL), "b": z3.Function("unpackB", SS, INT)}
RANGE = {"I": (0, 2**32 - 1), "b": (-128, 127)}
ENC = z3.Function("enc", SS, SS)
DEC = z3.Function("dec", SS, SS)


class VBytes(V):
    __slots__ = ("t",)

    def __init__(self, t):
        self.t = t

    def __repr__(self):
        return f"VBytes({self.t})"


def pack_term(eng, st, fmt, v, line=0, check=True):
    f, n = PACK[fmt]
    x = eng.to_real(v) if fmt == "d" else eng.to_int(v, line)
    if fmt in RANGE and check and eng.spec_depth == 0:
        lo, hi = RANGE[fmt]
        eng.oblig(st, f"pack@{line}", z3.And(x >= lo, x <= hi), line, label=f"struct.pack('{fmt}') range (struct.error)")
        st.assume(z3.And(x >= lo, x <= hi))
    t = f(x)
    st.assume(z3.Length(t) == n)
    if fmt in RANGE:
        lo, hi = RANGE[fmt]
        st.assume(z3.Implies(z3.And(x >= lo, x <= hi), UNPACK[fmt](t) == x))
    else:
        st.assume(UNPACK[fmt](t) == x)  # A-REAL: the double is the real it denotes
    return VBytes(t)


def enc_term(eng, st, s):
    ts = s.t if s.s is None else z3.StringVal(s.s)
    t = ENC(ts)
    st.assume(DEC(t) == ts)
    return VBytes(t)


@model("struct.pack")
def struct_pack(eng, st, args, kwargs, line):
    fmt = args[0]
    if not (isinstance(fmt, VStr) and fmt.s in PACK) or len(args) != 2:
        raise OutOfSubset(f"line {line}: struct.pack format {fmt!r}")
    return val(st, pack_term(eng, st, fmt.s, args[1], line))


@model("struct.calcsize")
def struct_calcsize(eng, st, args, kwargs, line):
    fmt = args[0]
    if not (isinstance(fmt, VStr) and fmt.s in PACK):
        raise OutOfSubset(f"line {line}: struct.calcsize format {fmt!r}")
    return val(st, VInt(PACK[fmt.s][1]))


@model("struct.unpack")
def struct_unpack(eng, st, args, kwargs, line):
    fmt, b = args[0], args[1]
    if not (isinstance(fmt, VStr) and fmt.s in PACK and isinstance(b, VBytes)):
        raise OutOfSubset(f"line {line}: struct.unpack form")
    n = PACK[fmt.s][1]
    if eng.spec_depth == 0:
        eng.oblig(st, f"unpack@{line}", z3.Length(b.t) == n, line, label="buffer size (struct.error)")
        st.assume(z3.Length(b.t) == n)
    x = UNPACK[fmt.s](b.t)
    if fmt.s in RANGE:
        lo, hi = RANGE[fmt.s]
        st.assume(z3.And(x >= lo, x <= hi))
    st.assume(z3.Implies(z3.Length(b.t) == n, PACK[fmt.s][0](x) == b.t))
    return val(st, VTuple([VReal(x) if fmt.s == "d" else VInt(x)]))


@model("strmethod.encode")
def str_encode(eng, st, args, kwargs, line):
    return val(st, enc_term(eng, st, args[0]))


@model("bytesmethod.decode")
def bytes_decode(eng, st, args, kwargs, line):
    b = args[0]
    return val(st, VStr(None, DEC(b.t)))


def _flatten_concat(t, st=None, depth=0):
    """components of a concatenation; a component that the path condition DEFINES as a concatenation
    (`x == a ++ b`, e.g. the result of encode_key at a call site) is expanded too"""
    if z3.is_app(t) and t.decl().kind() == z3.Z3_OP_SEQ_CONCAT:
        out = []
        for c in t.children():
            out.extend(_flatten_concat(c, st, depth))
        return out
    if st is not None and depth < 3 and z3.is_const(t):
        for p in st.pc:
            if z3.is_implies(p) and z3.is_true(z3.simplify(p.arg(0))):
                p = p.arg(1)  # an ensures clause under a case guard that holds
            for q in (p.children() if z3.is_and(p) else [p]):
                if z3.is_eq(q) and q.arg(0).eq(t) and z3.is_app(q.arg(1)) and q.arg(1).decl().kind() == z3.Z3_OP_SEQ_CONCAT:
                    return _flatten_concat(q.arg(1), st, depth + 1)
    return [t]


def named_sub(eng, st, content, pos, k):
    """content[pos:pos+k]; when that is exactly one component of a concatenation the component itself is returned
    (and the equality recorded), so that the sequence solver is not needed for the framing arguments"""
    out = z3.SubString(content, pos, k)
    parts = _flatten_concat(content, st)
    if len(parts) > 1:
        off = z3.IntVal(0)
        for part in parts:
            if eng.entails(st, z3.And(pos == off, k == z3.Length(part))):
                st.assume(out == part)
                return part
            off = smt.som(off + z3.Length(part))
    return out


def binio_new(eng, st, content):
    oid = eng.new_oid(st, {"content": content, "pos": VInt(0)})
    return VObj(oid, "BinaryIO")


@model("io.BytesIO")
def bytesio_new(eng, st, args, kwargs, line):
    if not (args and isinstance(args[0], VBytes)):
        raise OutOfSubset(f"line {line}: io.BytesIO form")
    return val(st, binio_new(eng, st, args[0]))


@model("BinaryIO.tell")
def bio_tell(eng, st, args, kwargs, line):
    return val(st, st.objs[args[0].oid]["pos"])


@model("BinaryIO.read")
def bio_read(eng, st, args, kwargs, line):
    """read(n): the next min(n, remaining) bytes; the position advances by that many."""
    f = st.objs[args[0].oid]
    n = eng.to_int(args[1], line)
    pos, content = f["pos"].t, f["content"].t
    rem = z3.Length(content) - pos
    k = smt.simp(z3.If(n < 0, rem, z3.If(n <= rem, n, rem)))
    out = named_sub(eng, st, content, pos, k)
    st.assume(z3.Length(out) == k)
    f["pos"] = VInt(smt.som(pos + k))
    return val(st, VBytes(out))
