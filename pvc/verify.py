"""Function-by-function verification driver: one function against its contract -> obligations."""
from __future__ import annotations

import ast
import itertools
import os

import z3

from . import smt
from .calls import CallMixin, VOpaqueArr, VOpaqueBuf, parse_spec
from .contract import (Arr, Arr2, Bool, Chunks, Const, Contract, Int, LoopSpec, Obj, Opaque, Opt, Raw, Real, RecArr, Str)
from .engine import Engine
from .expr import ExprMixin
from .source import ContractMismatch, OutOfSubset, _strip_doc
from .state import NORMAL, Obligation, Outcome, State
from .stmt import StmtMixin
from .values import *  # noqa: F403


def loop_ids_of(fnode):
    ids = {}

    def rec(n):
        for ch in ast.iter_child_nodes(n):
            if isinstance(ch, (ast.For, ast.While)):
                ids[id(ch)] = len(ids)
            if not isinstance(ch, (ast.FunctionDef, ast.Lambda, ast.ClassDef)):
                rec(ch)
    rec(fnode)
    return ids


def case_label(v):
    if isinstance(v, (int, str, bool)) or v is None:
        return str(v)
    lab = getattr(v, "label", None)
    if lab:
        return lab
    return type(v).__name__ + (getattr(v, "kind", "") or "")


def case_combos(c):
    names = list(c.cases)
    return [lab for lab in (",".join(f"{k}={case_label(v)}" for k, v in zip(names, vals))
                            for vals in itertools.product(*[c.cases[n] for n in names])) if lab not in c.skip_cases]


class SpecFn:
    """Recursive sum-like spec function: UF + one-step unfolding emitted at every application.

    ``body(n, *args)`` builds the summand for index n-1 from raw z3 terms; the same Python text is
    run concretely in replays (specs/*.py)."""

    def __init__(self, name, argsorts, ret, unfold, doc=""):
        self.name, self.argsorts, self.ret, self.unfold, self.doc = name, argsorts, ret, unfold, doc
        self.f = None

    def raw(self, v, eng):
        if isinstance(v, VOpaqueArr):
            return v.t
        if isinstance(v, VReal):
            return v.t
        if isinstance(v, (VInt, VBool)):
            return eng.to_int(v)
        raise OutOfSubset(f"spec argument {v!r}")

    def apply(self, eng, st, args, line=0):
        raws = [self.raw(a, eng) for a in args]
        raws = [smt.som(r) if r.sort() == INT else r for r in raws]
        if self.f is None or [r.sort() for r in raws] != self.argsorts_z:
            self.argsorts_z = [r.sort() for r in raws]
            self.f = z3.Function(self.name + "_" + "_".join(str(s).replace(" ", "").replace("(", "").replace(")", "")
                                                             .replace(",", "") for s in self.argsorts_z),
                                 *self.argsorts_z, self.ret)
        t = self.f(*raws)
        # one-step unfolding (definition instance)
        n = raws[-1]
        prev = self.f(*raws[:-1], smt.som(n - 1))
        step = self.unfold(eng, st, raws)
        zero = z3.RealVal(0) if self.ret == REAL else z3.IntVal(0)
        if not getattr(eng, "no_unfold", False):
            # the one-step definition instance: needed where the sum is built (kernels, lemmas), noise elsewhere
            st.assume(t == z3.If(n <= 0, zero, prev + step))
        st.assume(self.f(*raws[:-1], z3.IntVal(0)) == zero)
        eng.assume_tag("SPEC:" + self.name)
        return VReal(t) if self.ret == REAL else VInt(t)


class Verifier(Engine, ExprMixin, StmtMixin, CallMixin):
    def __init__(self, source, registry, specs=None, models=None, prune=True):
        super().__init__(source, registry, specs, models)
        self.prune = prune
        self._param_names_used = set()
        self.loops_seen = set()
        self.inlined = set()
        self.inline_ok = set()
        self.inline_classes = set()
        self.param_vals = {}
        self.yield_hook_data = None

    # ------------------------------------------------------------------ object attribute via properties
    def obj_attr(self, base: VObj, attr, st, line):
        relfile = base.file
        if relfile is None:
            raise OutOfSubset(f"line {line}: attribute {attr} of {base!r} (no class file)")
        fi = self.src.find_method(relfile, base.cls, attr)
        if fi is None:
            # class-level constant (ClassVar table)
            tmod = self.src.module(relfile)
            if base.cls in tmod.classes:
                for s_ in tmod.classes[base.cls][0].body:
                    tgt = val_ = None
                    if isinstance(s_, ast.AnnAssign) and isinstance(s_.target, ast.Name):
                        tgt, val_ = s_.target.id, s_.value
                    elif isinstance(s_, ast.Assign) and isinstance(s_.targets[0], ast.Name):
                        tgt, val_ = s_.targets[0].id, s_.value
                    if tgt == attr and val_ is not None:
                        return self.ev_const_expr(tmod, val_)
            raise OutOfSubset(f"line {line}: {base.cls} has no attribute {attr} in the contract's model")
        if fi.is_property:
            paths = self.call_repo(fi.key, base, [], {}, st, line)
            vals = [(s2, oc) for s2, oc in paths if oc.kind == "value"]
            if len(paths) != 1 or len(vals) != 1 or vals[0][0] is not st:
                raise OutOfSubset(f"line {line}: property {fi.key} with several outcomes")
            return vals[0][1].value
        return VFunc("method", fi.key, base)

    # ------------------------------------------------------------------ one function, one case
    def verify_case(self, c: Contract, case: dict):
        fi = self.src.func(c.key)
        self.fi = fi
        self.mod = self.src.module(fi.file)
        self.contract = c
        self.cur_func = c.key
        self.cur_case = ",".join(f"{k}={case_label(v)}" for k, v in case.items())
        self.loop_counter = 0
        self.loop_ids = loop_ids_of(fi.node)
        self.call_counter = {}
        self.loops_seen = set()
        self._param_names_used = set()
        self.bv_u1 = getattr(c, "bv_u1", False)
        self.no_lemma_axioms = getattr(c, "no_lemma_axioms", False)
        self.no_unfold = getattr(c, "no_unfold", False)
        self.float_err = getattr(c, "float_err", False)
        st = State()
        # parameters
        a = fi.node.args
        pnames = [x.arg for x in a.posonlyargs + a.args + a.kwonlyargs]
        if a.vararg:
            pnames.append(a.vararg.arg)
        if a.kwarg:
            pnames.append(a.kwarg.arg)
        dotted = {k: v for k, v in case.items() if "." in k}
        case = {k: v for k, v in case.items() if "." not in k}
        for p in pnames:
            if p not in c.params and p not in case:
                raise ContractMismatch(f"{c.key}: parameter {p} has no type in the contract")
        for p in c.params:
            if p not in pnames:
                raise ContractMismatch(f"{c.key}: contract parameter {p} not in the signature {pnames}")
        self.param_vals = {}
        for p in pnames:
            t = c.params.get(p)
            if p in case:
                cv = case[p]
                t2 = cv if isinstance(cv, (Int, Real, Arr, Arr2, Obj, Bool, Str, RecArr, Opaque, Raw, Chunks)) else Const(cv)
                v = self.mk_param(p, t2, st)
            else:
                v = self.mk_param(p, t, st)
            st.env[p] = v
            self.param_vals[p] = v
        for g, t in getattr(c, "ghost_params", {}).items():
            st.env[g] = self.mk_param(g, t, st)
            self.param_vals[g] = st.env[g]
        for path, cv in dotted.items():
            parts = path.split(".")
            o = st.env[parts[0]]
            for q in parts[1:-1]:
                o = st.objs[o.oid][q]
            st.objs[o.oid][parts[-1]] = self.mk_param(path, Const(cv), st)
        case = dict(case, **dotted)
        self.case_consts = case
        for (cname, cval), defs in getattr(c, "case_defs", {}).items():
            if cname in case and case_label(case[cname]) == cval:
                for (target, expr) in defs:
                    val_ = self.spec_val(expr, st)
                    parts = target.split(".")
                    if len(parts) == 1:
                        st.env[target] = val_
                        self.param_vals[target] = val_
                    else:
                        o = st.env[parts[0]]
                        for q in parts[1:-1]:
                            o = st.objs[o.oid][q]
                        st.objs[o.oid][parts[-1]] = val_
        for name, expr in c.lets.items():
            st.env[name] = self.spec_val(expr, st)
        for r in c.requires:
            st.assume(self.spec_bool(r, st))
        for (cname, cval), exprs in getattr(c, "case_requires", {}).items():
            if cname in case and case_label(case[cname]) == cval:
                for r in exprs:
                    st.assume(self.spec_bool(r, st))
        # cover: preconditions satisfiable
        self.obls.append(Obligation(f"{c.key}/cover:requires[{self.cur_case}]", "cover", list(st.pc),
                                    z3.BoolVal(True), c.key, fi.node.lineno, "C", "requires", case=self.cur_case))
        self.old = st.fork()
        self.old.env = dict(st.env)
        for g, expr in c.ghost_init.items():
            st.env[g] = self.spec_val(expr, st)
        if fi.is_generator:
            self.setup_generator(c, st)
        # locals named by after_assign clauses must still be assigned somewhere in the function (a clause that can never
        # fire would be vacuous): static check on the current source
        assigned = {t.id for n_ in ast.walk(fi.node) if isinstance(n_, ast.Assign) for t in n_.targets if isinstance(t, ast.Name)}
        for name_ in c.after_assign:
            if name_ not in assigned:
                raise ContractMismatch(f"{c.key}: local '{name_}' named by an after_assign clause is no longer assigned")
        paths = self.exec_block(_strip_doc(fi.node.body), st)
        # loops named by the contract must exist
        for key in c.loops:
            if key not in self.loops_seen and not c.loops[key].unroll:
                raise ContractMismatch(f"{c.key}: loop {key} of the contract not found in the code")
        n_ret = 0
        self.exit_pcs = []
        for s2, oc in paths:
            if oc.kind in (NORMAL, "return"):
                n_ret += 1
                self.result = oc.value if oc.kind == "return" else NONE
                self.check_post(c, s2, oc)
            elif oc.kind == "raise":
                self.check_raise(c, s2, oc)
            else:
                raise OutOfSubset(f"{c.key}: {oc.kind} at top level")
        self.n_return_paths = n_ret
        # vacuity guard: some exit (return or raise) of this case is reachable under the preconditions
        for s2, oc in paths:
            if oc.kind == "raise":
                self.exit_pcs.append(z3.And(s2.pc) if s2.pc else z3.BoolVal(True))
        self.obls.append(Obligation(f"{c.key}/cover:exit[{self.cur_case}]", "cover",
                                    [z3.Or(self.exit_pcs) if self.exit_pcs else z3.BoolVal(False)],
                                    z3.BoolVal(True), c.key, fi.node.lineno, "C", "exit", case=self.cur_case))

    def check_post(self, c, st, oc):
        line = oc.line or self.fi.node.end_lineno
        self.exit_pcs.append(z3.And(st.pc) if st.pc else z3.BoolVal(True))
        if self.fi.is_generator:
            for (label, expr, cls) in c.end:
                self.oblig(st, "end", self.spec_bool(expr, st), line, label=label, cls=cls)
        # in a postcondition a parameter name denotes the argument the caller passed (its entry value), whatever the body
        # rebinds the name to; objects and arrays are read in the final heap.  (A post evaluated over a rebound
        # parameter would silently follow the code: `window = min(window, n)` once went unnoticed that way.)
        saved_env = st.env
        if not getattr(c, "post_uses_final_params", False):
            st.env = dict(st.env)
            for p_, v_ in self.param_vals.items():
                st.env[p_] = v_
        try:
            for (label, expr, cls) in c.ensures:
                self.oblig(st, "post", self.spec_bool(expr, st), line, label=label, cls=cls)
        finally:
            st.env = saved_env
        for rz in c.raises:
            if rz.when is not None:
                # raised iff `when`: a normal return must not satisfy it (evaluated over entry state)
                cond = self.spec_bool(f"old({rz.when})", st)
                self.oblig(st, f"raises:{rz.exc}", z3.Not(cond), line, label="must-raise", cls=rz.cls)
        # frame: array parameters not listed in `modifies` are unchanged
        mods = set(m.split(".")[0] for m in c.modifies)
        for p, v in self.param_vals.items():
            if p in mods:
                continue
            if isinstance(v, (VArr, VArr2)):
                if st.heap[v.obj] is not self.old.heap[v.obj]:
                    self.oblig(st, "frame", st.heap[v.obj] == self.old.heap[v.obj], line, label=p)
            elif isinstance(v, VRecArr):
                for f, a in v.fields.items():
                    if st.heap[a.obj] is not self.old.heap[a.obj]:
                        self.oblig(st, "frame", st.heap[a.obj] == self.old.heap[a.obj], line, label=f"{p}.{f}")

    def check_raise(self, c, st, oc):
        matching = [rz for rz in c.raises if rz.exc == oc.exc]
        if not matching:
            # no clause allows this exception: the path must be dead
            self.oblig(st, f"no-raise@{oc.line}", z3.BoolVal(False), oc.line, label=oc.exc)
            return
        if self.fi.is_generator and "_nyield" in st.env:
            # rejected before anything is yielded
            self.oblig(st, f"raise-after-yield@{oc.line}", self.to_int(st.env["_nyield"]) == 0, oc.line,
                       label=f"{oc.exc} after a block was yielded")
        conds = []
        for rz in matching:
            e = rz.when if rz.when is not None else rz.only_if
            conds.append(self.spec_bool(f"old({e})", st) if e else z3.BoolVal(True))
        self.oblig(st, f"raises:{oc.exc}@{oc.line}", z3.Or(conds), oc.line, label="only-if", cls=matching[0].cls)
        for rz in matching:
            for (label, expr) in rz.post:
                self.oblig(st, f"raises-post:{oc.exc}@{oc.line}", self.spec_bool(expr, st), oc.line, label=label,
                           cls=rz.cls)

    def setup_generator(self, c, st):
        self.yield_index = 0

        def on_yield(st2, v, line):
            saved = st2.env.get("yielded")
            st2.env["yielded"] = v
            for (label, expr, cls) in c.yields:
                self.oblig(st2, f"yield@{line}", self.spec_bool(expr, st2), line, label=label, cls=cls)
            # ghost updates after the yield
            for g, expr in c.yield_ghost.items():
                st2.env[g] = self.spec_val(expr, st2)
            st2.env.pop("yielded", None)
            if saved is not None:
                st2.env["yielded"] = saved
        self.on_yield = on_yield

    # ------------------------------------------------------------------ all cases
    def verify(self, c: Contract):
        """-> (obligations, status) ; status 'ok' | ('out-of-subset', msg) | ('mismatch', msg)"""
        self.obls = []
        names = list(c.cases)
        combos = [dict(zip(names, vals)) for vals in itertools.product(*[c.cases[n] for n in names])] or [{}]
        flt = getattr(self, "case_filter", None) or os.environ.get("PVC_CASE_FILTER")
        try:
            for case in combos:
                if flt and flt != ",".join(f"{k}={case_label(v)}" for k, v in case.items()) and \
                        (getattr(self, "case_filter", None) or flt not in ",".join(f"{k}={case_label(v)}" for k, v in case.items())):
                    continue
                if ",".join(f"{k}={case_label(v)}" for k, v in case.items()) in c.skip_cases:
                    continue
                self.verify_case(c, case)
        except OutOfSubset as exc:
            return self.obls, ("out-of-subset", str(exc))
        except ContractMismatch as exc:
            return self.obls, ("mismatch", str(exc))
        return self.obls, ("ok", "")
