"""Sidecar contract language (data only; the engine interprets it)."""
from __future__ import annotations

from dataclasses import dataclass, field


# ------------------------------------------------------------------ parameter types
@dataclass
class Int:
    lo: object = None
    hi: object = None


@dataclass
class Real:
    pass


@dataclass
class Bool:
    pass


@dataclass
class Str:
    pass


@dataclass
class Arr:
    kind: str = "real"  # 'bv8' | 'int' | 'real' | 'bool'
    dtype: str | None = None  # numba/numpy dtype name for range facts and stores ('u1','i4','f4',...)
    view: bool = False  # True: the parameter may be a view (symbolic offset) of a larger object


@dataclass
class Raw:
    """A raw (whole-heap-object) array value handed to lemma functions: arr(x) of some array."""
    kind: str = "real"


@dataclass
class Chunks:
    """Ghost list of array chunks already appended (symbolic length)."""
    kind: str = "real"


@dataclass
class Arr2:
    kind: str = "real"
    dtype: str | None = None


@dataclass
class RecArr:
    fields: dict = field(default_factory=dict)  # name -> (kind, dtype)


@dataclass
class Opt:
    inner: object = None  # None | inner ; verified by case split


@dataclass
class Obj:
    cls: str = ""
    file: str | None = None
    fields: dict = field(default_factory=dict)  # name -> type


@dataclass
class Const:
    value: object = None


@dataclass
class Bytes:
    """An immutable byte string (pvc/bytesmodel.py)."""


@dataclass
class Callback:
    """A user-supplied callable taking one 1-D array and returning an array of the same length whose element c is an
    uninterpreted function of the argument's contents and c (deterministic, no side effects: assumed)."""
    kind: str = "bool"
    dtype: str = "b1"


@dataclass
class SeqOf:
    """A list/tuple of symbolic length whose items all have the given type (scalars or Tup of scalars)."""
    item: object = None


@dataclass
class Tup:
    """A tuple of typed components (e.g. the shape of an n-d array that is otherwise opaque)."""
    items: list = field(default_factory=list)


@dataclass
class Opaque:
    pass


# ------------------------------------------------------------------ clauses
@dataclass
class LoopSpec:
    invariants: list = field(default_factory=list)  # [(label, expr)]
    unroll: bool = False
    decreases: str | None = None
    init_hints: list = field(default_factory=list)  # [(label, expr)] proved before the loop is entered
    end_hints: list = field(default_factory=list)  # [(label, expr)] proved at the end of the body, before the invariant
    body_hints: list = field(default_factory=list)  # [(label, expr)] proved at the top of the body, then usable


@dataclass
class Raises:
    exc: str
    when: str | None = None  # raised iff `when` (if given)
    only_if: str | None = None  # may be raised only if
    cls: str = "P"
    post: list = field(default_factory=list)  # [(label, expr)] that hold when the exception leaves the function


@dataclass
class Contract:
    key: str
    params: dict = field(default_factory=dict)
    requires: list = field(default_factory=list)
    ensures: list = field(default_factory=list)  # [(label, expr, cls)]
    modifies: list = field(default_factory=list)
    raises: list = field(default_factory=list)
    loops: dict = field(default_factory=dict)  # "n:var" -> LoopSpec
    cases: dict = field(default_factory=dict)  # name -> [concrete values]  (complete case split)
    lets: dict = field(default_factory=dict)
    ret: object = None
    inline: bool = False
    trusted: bool = False  # assumed contract (not verified): listed in evidence
    trusted_reason: str = ""
    props: list = field(default_factory=list)
    yields: list = field(default_factory=list)  # [(label, expr, cls)] checked at every yield
    yield_ghost: dict = field(default_factory=dict)  # ghost name -> update expression evaluated after each yield
    ghost_init: dict = field(default_factory=dict)  # ghost name -> initial value expression
    end: list = field(default_factory=list)  # [(label, expr, cls)] at generator exhaustion
    race: bool = False  # generate C19 obligations for prange loops
    pure: bool = True
    notes: str = ""
    assumptions: list = field(default_factory=list)
    case_requires: dict = field(default_factory=dict)  # (name, case label) -> [exprs]
    gen_spec: dict = field(default_factory=dict)  # consumer-side view of a generator: G, S, N, start, nchans, gulp
    gen_requires: list = field(default_factory=list)  # consumer-side preconditions (on the arguments)
    ret_like: str | None = None  # result array takes kind/dtype of this array parameter
    inline_calls: list = field(default_factory=list)  # callee keys executed symbolically here even if they have a contract
    ghost_args: dict = field(default_factory=dict)  # callee short name -> {ghost param: expr in the caller's scope}
    gen_copy: bool = False  # (consumer) the yielded block is written in place: model it as a fresh copy
    case_defs: dict = field(default_factory=dict)  # (name, case label) -> [(target path, expr)] definitional equalities
    bv_u1: bool = False  # model uint8 arrays allocated in the body as bit-vectors
    kind: str = "function"  # 'function' | 'race' | 'lemma'
    ghost_params: dict = field(default_factory=dict)
    decreases: str | None = None  # termination measure of a recursive lemma function
    ret_meta: dict = field(default_factory=dict)  # ghost flags of the returned array: name -> spec expr (e.g. zerod_if)
    after_assign: dict = field(default_factory=dict)  # local name -> [(label, expr)] proved right after it is assigned
    skip_cases: list = field(default_factory=list)  # case labels whose preconditions are contradictory by construction
    float_err: bool = False  # scalar float arithmetic under the relative-error model fl(a op b) = (a op b)(1+e), |e| <= 2^-53
    no_unfold: bool = False  # do not emit the one-step unfolding of sum specs (consumers reason through contracts/lemmas)
    no_lemma_axioms: bool = False  # set on the lemma's own proof (no circularity)
    build: object = None  # lemma: callable(verifier) -> (obligations, status)

    def ensure(self, label, expr, cls="P"):
        self.ensures.append((label, expr, cls))
        return self


class Registry:
    def __init__(self):
        self.by_key: dict[str, Contract] = {}
        self.lemmas: list = []

    def add(self, c: Contract):
        if c.key in self.by_key:
            raise ValueError(f"duplicate contract {c.key}")
        self.by_key[c.key] = c
        return c

    def get(self, key):
        return self.by_key.get(key)

    def for_prop(self, pid):
        return [c for c in self.by_key.values() if pid in c.props]
