"""Check runner: discharge a property's whole chain, replay refutations, write evidence."""
from __future__ import annotations

import json
import multiprocessing as mp
import os
import subprocess
import sys
import time
import traceback

VERIF = os.path.dirname(os.path.dirname(os.path.abspath(__file__)))
REPO = os.environ.get("PVC_REPO", "/repo")
VENV_PY = "/venv/bin/python"


def _load_registry():
    sys.path.insert(0, VERIF)
    import contracts
    return contracts.load_all()


def _known_findings():
    p = os.path.join(VERIF, "known_findings.json")
    if not os.path.exists(p):
        return []
    with open(p) as fh:
        return json.load(fh).get("findings", [])


def project_model(model, params, heaps):
    """Solver model -> concrete arguments (ints, reals, short arrays)."""
    import z3
    from . import smt
    from .values import VArr, VBool, VInt, VReal, VStr, VObj, VBV, VArr2
    out = {}
    for name, v in params.items():
        try:
            if isinstance(v, VInt):
                out[name] = smt.model_value(model, v.t)
            elif isinstance(v, VReal):
                out[name] = smt.model_value(model, v.t)
            elif isinstance(v, VBool):
                out[name] = smt.model_value(model, v.t)
            elif isinstance(v, VBV):
                out[name] = smt.model_value(model, v.t)
            elif isinstance(v, VStr):
                out[name] = v.s if v.s is not None else smt.model_value(model, v.t)
            elif isinstance(v, VArr):
                n = smt.model_value(model, v.n)
                off = smt.model_value(model, v.off)
                if isinstance(n, int) and isinstance(off, int) and v.obj in heaps:
                    m = max(0, min(n, 64))
                    out[name] = {"len": n, "elems": [smt.model_value(model, z3.Select(heaps[v.obj], z3.IntVal(off + k)))
                                                     for k in range(m)]}
            elif isinstance(v, VArr2):
                n0, n1 = smt.model_value(model, v.n0), smt.model_value(model, v.n1)
                if isinstance(n0, int) and isinstance(n1, int) and v.obj in heaps and n0 * n1 <= 256:
                    out[name] = {"shape": [n0, n1],
                                 "elems": [smt.model_value(model, z3.Select(heaps[v.obj], z3.IntVal(k)))
                                           for k in range(n0 * n1)]}
                else:
                    out[name] = {"shape": [n0, n1]}
        except Exception:  # noqa: BLE001 - projection is best effort
            out[name] = None
    return out


def small_scope(params, bound):
    import z3
    from .values import VArr, VArr2, VInt, VRecArr
    out = []
    for v in params.values():
        if isinstance(v, VInt) and not z3.is_int_value(v.t):
            out.append(z3.And(v.t >= -bound, v.t <= bound))
        elif isinstance(v, VArr):
            out.append(v.n <= bound)
            if not z3.is_int_value(v.off):
                out.append(v.off <= bound)
        elif isinstance(v, VArr2):
            out.append(z3.And(v.n0 <= bound, v.n1 <= bound))
        elif isinstance(v, VRecArr):
            out.append(v.n <= bound)
    return out


def work(job):
    """Verify one contract (all cases) and discharge its obligations. Returns plain data."""
    key, timeout_ms, known, extra = job
    t0 = time.time()
    try:
        import z3  # noqa: F401
        from . import smt
        from .models import MODELS
        from . import iomodel, hdrmodel, wrmodel, bytesmodel, npelem  # noqa: F401  (register models)
        from .source import Source
        from .verify import Verifier
        sys.path.insert(0, VERIF)
        import contracts
        import specs
        reg = contracts.load_all()
        c = reg.get(key)
        src = Source(REPO)
        v = Verifier(src, reg, specs.make_specs(), MODELS)
        contracts.configure(v)
        v.case_filter = extra
        if getattr(c, "trusted", False):
            return dict(key=key, status=("ok", ""), obligations=[], wall_s=0.0, assumptions={}, trusted={key: c.trusted_reason},
                        inlined=[], kind="assumed", trusted_contract=True)
        if getattr(c, "kind", "function") == "race":
            from .race import race_obligations
            obls, status = race_obligations(v, c)
        elif getattr(c, "kind", "function") == "lemma":
            obls, status = c.build(v)
        else:
            obls, status = v.verify(c)
        fi = None
        try:
            fi = src.func(c.key.replace("race:", "")) if "::" in c.key and getattr(c, "kind", "function") != "lemma" else None
        except Exception:  # noqa: BLE001
            fi = None
        res = []
        for o in obls:
            if o.cls == "C":
                # vacuity guard: most covers are satisfiable in milliseconds; an undecided one gets two cheap retries
                # under restrictions (a model under a restriction is still a model), never a long search
                r, _m = smt.check_sat(o.premises, timeout_ms=min(timeout_ms, 1500), native_retry=False)
                if r == "unknown":
                    for extra in (smt.bound_int_consts(o.premises, 1), small_scope(o.params, 3) + smt.bound_int_consts(o.premises, 3)):
                        r, _m = smt.check_sat(list(o.premises) + extra, timeout_ms=min(timeout_ms, 1500), native_only=True)
                        if r == "sat":
                            break
                        r = "unknown"
                st = {"sat": "proved", "unsat": "refuted", "unknown": "unknown"}[r]
                res.append(dict(name=o.name, kind=o.kind, cls=o.cls, status=st, solver="z3", time_s=0.0,
                                line=o.line, case=o.case, label=o.label, vacuity=True))
                continue
            r = smt.check_valid(o.premises, o.goal, timeout_ms=timeout_ms)
            if r.status == "unknown" and not os.environ.get("PVC_NO_RETRY") and not any(x.get("status") == "refuted" for x in res):
                # (skipped once an obligation of this function has been refuted: the function's verdict is then a violation
                # whatever the remaining unknowns turn out to be, and the unchanged tree - nothing refuted - is unaffected)
                # one more attempt with three times the budget before anything is called undecided: a verdict must not
                # flip because the machine happened to be busy (an obligation that is really out of reach costs a few
                # minutes more, on a changed tree only)
                t_first = r.time_s
                r = smt.check_valid(o.premises, o.goal, timeout_ms=3 * timeout_ms)
                r.time_s += t_first
            if r.status == "unknown":
                # small-scope retry: a counter-model under extra restrictions is still a counter-model
                for bound in (3, 8):
                    r2 = smt.check_valid(list(o.premises) + small_scope(o.params, bound), o.goal,
                                         timeout_ms=min(timeout_ms, 5000), use_cvc5=False)
                    if r2.status == "refuted":
                        r2.time_s += r.time_s
                        r2.solver += f" (small scope <= {bound})"
                        r = r2
                        break
            candidate = False
            if r.status == "unknown":
                # candidate counter-model from the quantifier-free premises only: not a refutation by itself (the
                # dropped premises might exclude it) - it is handed to the native replay, which decides
                gp = [p for p in o.premises if not smt._has_quant(p)]
                try:
                    r3 = smt.check_valid(gp, o.goal, timeout_ms=min(timeout_ms, 8000), use_cvc5=False, hints=False)
                except Exception:  # noqa: BLE001
                    r3 = None
                if r3 is not None and r3.status == "refuted":
                    candidate = True
                    r.model = r3.model
            d = dict(name=o.name, kind=o.kind, cls=o.cls, status=r.status, solver=r.solver,
                     time_s=round(r.time_s, 4), line=o.line, case=o.case, label=o.label, reason=r.reason)
            if candidate:
                d["status"] = "candidate"
                d["model"] = project_model(r.model, o.params, o.extra.get("heaps") or {})
            if r.status == "refuted":
                heaps = o.extra.get("heaps") or getattr(v, "old", None) and v.old.heap or {}
                d["model"] = project_model(r.model, o.params, heaps)
                d["goal"] = str(o.goal)[:600]
                # known finding: re-discharge outside the listed input class
                for kf in known:
                    if kf.get("status") == "open" and kf.get("obligation") and _match(kf["obligation"], o.name):
                        d["known"] = kf["id"]
                        if kf.get("input_class"):
                            try:
                                from .state import State
                                st2 = State()
                                st2.env = dict(o.params)
                                st2.heap = dict(heaps)
                                st2.hmeta = v.old.hmeta if v.old is not None else {}
                                st2.objs = {k: dict(x) for k, x in (v.old.objs if v.old is not None else {}).items()}
                                excl = v.spec_bool(kf["input_class"], st2)
                                r2 = smt.check_valid(list(o.premises) + list(st2.pc) + [z3.Not(excl)], o.goal,
                                                     timeout_ms=timeout_ms)
                                d["outside_class"] = r2.status
                                if r2.status == "refuted":
                                    d["model_outside"] = project_model(r2.model, o.params, heaps)
                            except Exception as exc:  # noqa: BLE001
                                d["outside_class"] = f"error: {exc}"
                        break
            if len(res) < 3 or r.status != "proved":
                try:
                    s = z3.Solver()
                    for p in o.premises:
                        s.add(p)
                    s.add(z3.Not(o.goal))
                    d["smt2"] = s.to_smt2()[:1500]
                except Exception:  # noqa: BLE001
                    pass
            res.append(d)
        info = dict(key=key, status=status, obligations=res, wall_s=round(time.time() - t0, 3),
                    assumptions=dict(v.used_assumptions), trusted=dict(v.trusted_used), inlined=sorted(v.inlined),
                    kind=getattr(c, "kind", "function"), trusted_contract=bool(getattr(c, "trusted", False)))
        if fi is not None:
            info.update(file=fi.file, lines=list(fi.lines), ast_hash=fi.ast_hash())
        return info
    except Exception:  # noqa: BLE001
        return dict(key=key, status=("crash", traceback.format_exc()), obligations=[], wall_s=round(time.time() - t0, 3),
                    assumptions={}, trusted={}, inlined=[])


def _match(pattern, name):
    import fnmatch
    return fnmatch.fnmatchcase(name, pattern)


def run_jobs(keys, timeout_ms, known, nproc=None):
    sys.path.insert(0, VERIF)
    import contracts
    from .verify import case_combos
    reg = contracts.load_all()
    jobs = []
    for k in keys:
        c = reg.get(k)
        combos = case_combos(c) if c is not None and getattr(c, "kind", "function") == "function" and c.cases else []
        if len(combos) >= 2 and not c.trusted:
            jobs.extend((k, timeout_ms, known, combo) for combo in combos)  # one job per case: cases are independent
        else:
            jobs.append((k, timeout_ms, known, None))
    res = _run(jobs, nproc)
    # merge per-case results of one contract
    merged = {}
    order = []
    for info in res:
        k = info["key"]
        if k not in merged:
            merged[k] = info
            order.append(k)
            continue
        m = merged[k]
        m["obligations"].extend(info["obligations"])
        m["wall_s"] = round(m["wall_s"] + info["wall_s"], 3)
        for a, n in info["assumptions"].items():
            m["assumptions"][a] = m["assumptions"].get(a, 0) + n
        m["trusted"].update(info["trusted"])
        m["inlined"] = sorted(set(m["inlined"]) | set(info["inlined"]))
        if m["status"][0] == "ok" and info["status"][0] != "ok":
            m["status"] = info["status"]
    return [merged[k] for k in order]


def _run(jobs, nproc=None):
    nproc = nproc or min(16, max(1, len(jobs)))
    if len(jobs) == 1 or os.environ.get("PVC_SERIAL"):
        return [work(j) for j in jobs]
    jobs = sorted(jobs, key=lambda j: 0 if j[3] else 1)  # long (split) jobs first
    ctx = mp.get_context("fork")
    with ctx.Pool(nproc, maxtasksperchild=1) as pool:  # a fresh z3 context per job: verdicts do not depend on which jobs shared a worker
        return pool.map(work, jobs, chunksize=1)


def run_python(script, payload, timeout=600):
    """Run a replay / bounded driver under the repo's interpreter against REPO's working tree."""
    env = dict(os.environ)
    env["PYTHONPATH"] = REPO + os.pathsep + VERIF
    env.setdefault("NUMBA_CACHE_DIR", "/tmp/pvc_numba_cache")
    env["NUMBA_DISABLE_PERFORMANCE_WARNINGS"] = "1"
    p = subprocess.run([VENV_PY, script], input=json.dumps(payload), capture_output=True, text=True, env=env,
                       timeout=timeout)
    out = p.stdout.strip().splitlines()
    for line in reversed(out):
        if line.startswith("{"):
            try:
                return json.loads(line), p
            except json.JSONDecodeError:
                continue
    return None, p
