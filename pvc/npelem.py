"""Element-wise numpy operations with length-1 broadcasting (C15: estimate_zscore).

NaN does not exist in the real-number model; "not finite" is therefore a ghost flag per element: NOTFIN(array, index),
an uninterpreted predicate of the producing array (assumed contracts may leave it unconstrained).  np.isfinite reads
it; arrays produced by np.where take the flag of the selected branch, constants are finite.
"""
from __future__ import annotations

import z3

from . import smt
from .models import MODELS, model, new_array, val
from .source import OutOfSubset
from .state import Outcome
from .values import *  # noqa: F403

NOTFIN = z3.Function("notfinite", z3.ArraySort(INT, REAL), INT, BOOL)


def _bcast(eng, st, arrs, line):
    """common length n and per-operand index function (length-1 operands are broadcast)."""
    ns = [a for a in arrs if isinstance(a, VArr)]
    if not ns:
        raise OutOfSubset(f"line {line}: element-wise operation on scalars")
    big = None
    for a in ns:
        if not eng.entails(st, a.n == 1):
            big = a
            break
    n = big.n if big is not None else z3.IntVal(1)
    idx = {}
    for a in ns:
        if big is not None and a is not big and eng.entails(st, a.n == 1):
            idx[id(a)] = lambda j: z3.IntVal(0)
        else:
            if a is not big and big is not None:
                eng.oblig(st, f"shape@{line}", a.n == n, line, label="broadcast")
                st.assume(a.n == n)
            idx[id(a)] = lambda j: j
    return n, idx


def _el(eng, st, x, j, idx):
    if isinstance(x, VArr):
        k = idx[id(x)](j)
        return eng.elem_wrap(z3.Select(st.heap[x.obj], eng.arr_index_term(x, k)), st.hmeta[x.obj]["kind"])
    return x


def _notfin(eng, st, x, j, idx):
    if isinstance(x, VArr) and st.hmeta[x.obj]["kind"] == "real":
        nf = st.hmeta[x.obj].get("notfin")
        k = idx[id(x)](j)
        if nf is not None:
            return z3.substitute(nf[1], (nf[0], k))
        if st.hmeta[x.obj].get("finite"):
            return z3.BoolVal(False)
        return NOTFIN(st.heap[x.obj], eng.arr_index_term(x, k))
    return z3.BoolVal(False)


@model("numpy.asanyarray")
def np_asanyarray(eng, st, args, kwargs, line):
    a = args[0]
    if isinstance(a, (VArr, VArr2)):
        return val(st, a)
    raise OutOfSubset(f"line {line}: np.asanyarray({a!r})")


_scalar_isclose = MODELS.get("numpy.isclose")


@model("numpy.isclose")
def np_isclose(eng, st, args, kwargs, line):
    a, b = args[0], args[1]
    if not isinstance(a, VArr):
        return _scalar_isclose(eng, st, args, kwargs, line)
    eng.assume_tag("A-NP")
    n, idx = _bcast(eng, st, [a, b], line)
    j = z3.Int("j!ic")
    x, y = eng.to_real(_el(eng, st, a, j, idx)), eng.to_real(_el(eng, st, b, j, idx))
    d = z3.If(x >= y, x - y, y - x)
    ay = z3.If(y >= 0, y, -y)
    close = d <= z3.RealVal("1e-8") + z3.RealVal("1e-5") * ay     # numpy defaults: atol=1e-8, rtol=1e-5
    raw = z3.And(close, z3.Not(_notfin(eng, st, a, j, idx)))     # NaN is close to nothing
    return val(st, new_array(eng, st, [n], "bool", "b1", z3.Lambda([j], raw), "isclose"))


@model("numpy.isfinite")
def np_isfinite(eng, st, args, kwargs, line):
    a = args[0]
    if not isinstance(a, VArr):
        raise OutOfSubset(f"line {line}: np.isfinite of {a!r}")
    eng.assume_tag("A-NP")
    n, idx = _bcast(eng, st, [a], line)
    j = z3.Int("j!if")
    return val(st, new_array(eng, st, [n], "bool", "b1", z3.Lambda([j], z3.Not(_notfin(eng, st, a, j, idx))), "isfinite"))


@model("numpy.any")
def np_any(eng, st, args, kwargs, line):
    a = args[0]
    if not (isinstance(a, VArr) and st.hmeta[a.obj]["kind"] == "bool"):
        raise OutOfSubset(f"line {line}: np.any of {a!r}")
    j = smt.fresh("jany")
    return val(st, VBool(z3.Exists([j], z3.And(0 <= j, j < a.n, z3.Select(st.heap[a.obj], eng.arr_index_term(a, j))))))


@model("numpy.all")
def np_all(eng, st, args, kwargs, line):
    a = args[0]
    if not (isinstance(a, VArr) and st.hmeta[a.obj]["kind"] == "bool"):
        raise OutOfSubset(f"line {line}: np.all of {a!r}")
    j = smt.fresh("jall")
    return val(st, VBool(z3.ForAll([j], z3.Implies(z3.And(0 <= j, j < a.n), z3.Select(st.heap[a.obj], eng.arr_index_term(a, j))))))


_where1 = MODELS.get("numpy.where")


@model("numpy.where")
def np_where(eng, st, args, kwargs, line):
    if len(args) != 3:
        return _where1(eng, st, args, kwargs, line)
    eng.assume_tag("A-NP")
    c, x, y = args
    if not (isinstance(c, VArr) and st.hmeta[c.obj]["kind"] == "bool"):
        raise OutOfSubset(f"line {line}: np.where condition {c!r}")
    n, idx = _bcast(eng, st, [c, x, y], line)
    j = z3.Int("j!wh")
    cj = z3.Select(st.heap[c.obj], eng.arr_index_term(c, idx[id(c)](j)))
    xv, yv = eng.to_real(_el(eng, st, x, j, idx)), eng.to_real(_el(eng, st, y, j, idx))
    out = new_array(eng, st, [n], "real", "f8", z3.Lambda([j], z3.If(cj, xv, yv)), "where")
    st.hmeta[out.obj]["notfin"] = (j, z3.If(cj, _notfin(eng, st, x, j, idx), _notfin(eng, st, y, j, idx)))
    return val(st, out)


def _binary(name):
    def f(eng, st, args, kwargs, line):
        eng.assume_tag("A-NP")
        a, b = args[0], args[1]
        n, idx = _bcast(eng, st, [a, b], line)
        j = z3.Int("j!" + name[:2])
        x, y = eng.to_real(_el(eng, st, a, j, idx)), eng.to_real(_el(eng, st, b, j, idx))
        if name == "divide":
            jj = smt.fresh("jdiv")
            yy = eng.to_real(_el(eng, st, b, jj, idx))
            nfb = _notfin(eng, st, b, jj, idx)
            # the property's clause: never divide by zero, never by an undefined scale
            eng.oblig(st, f"zerodiv@{line}", z3.ForAll([jj], z3.Implies(z3.And(0 <= jj, jj < n), z3.And(yy != 0, z3.Not(nfb)))),
                      line, label="divisor non-zero and finite for every element")
            raw = x / y
        else:
            raw = x - y
        out = kwargs.get("out")
        nf = z3.Or(_notfin(eng, st, a, j, idx), _notfin(eng, st, b, j, idx))
        if isinstance(out, VArr):
            eng.oblig(st, f"shape@{line}", out.n == n, line, label="out= shape")
            if smt.conc_int(out.off) != 0 or smt.conc_int(out.stride) != 1:
                raise OutOfSubset(f"line {line}: out= view")
            st.heap[out.obj] = z3.Lambda([j], z3.If(z3.And(0 <= j, j < n), raw, z3.Select(st.heap[out.obj], j)))
            st.hmeta[out.obj]["notfin"] = (j, nf)
            return val(st, out)
        res = new_array(eng, st, [n], "real", "f4", z3.Lambda([j], raw), name)
        st.hmeta[res.obj]["notfin"] = (j, nf)
        return val(st, res)
    return f


MODELS["numpy.subtract"] = _binary("subtract")
MODELS["numpy.divide"] = _binary("divide")


@model("class:sigpyproc/core/stats.py::ZScoreResult")
def zscore_result(eng, st, args, kwargs, line):
    oid = eng.new_oid(st, {k: kwargs[k] for k in ("data", "loc", "scale")})
    return val(st, VObj(oid, "ZScoreResult", "sigpyproc/core/stats.py"))


@model("class:sigpyproc/core/stats.py::ChannelStats")
def channel_stats_new(eng, st, args, kwargs, line):
    """ChannelStats(nchans, nsamps): the accumulator object; ghost `pushed` counts the samples pushed so far
    (its moments array is owned by the C10 contracts)."""
    nchans, nsamps = args[0], args[1]
    oid = eng.new_oid(st, {"_nchans": nchans, "_nsamps": nsamps, "pushed": VInt(0)})
    return val(st, VObj(oid, "ChannelStats", "sigpyproc/core/stats.py"))
