"""Statement execution: path splitting at branches, loops cut at invariants."""
from __future__ import annotations

import ast

import z3

from . import smt
from .contract import LoopSpec
from .source import ContractMismatch, OutOfSubset, _strip_doc
from .state import NORMAL, Outcome, State
from .values import *  # noqa: F403

MAX_PATHS = 400
UNROLL_LIMIT = 16


def assigned_names(stmts):
    """Names syntactically assigned in a block (loop modifies-set for scalars)."""
    out = set()

    def tgt(t):
        if isinstance(t, ast.Name):
            out.add(t.id)
        elif isinstance(t, (ast.Tuple, ast.List)):
            for e in t.elts:
                tgt(e)

    for s in stmts:
        for n in ast.walk(s):
            if isinstance(n, ast.Assign):
                for t in n.targets:
                    tgt(t)
            elif isinstance(n, (ast.AugAssign, ast.AnnAssign)):
                tgt(n.target)
            elif isinstance(n, ast.For):
                tgt(n.target)
            elif isinstance(n, ast.With):
                for it in n.items:
                    if it.optional_vars is not None:
                        tgt(it.optional_vars)
    return out


class StmtMixin:
    # ------------------------------------------------------------------ blocks
    def exec_block(self, stmts, st: State):
        """-> list of (State, Outcome)."""
        live = [st]
        done = []
        for s in stmts:
            nxt = []
            for cur in live:
                for (s2, oc) in self.exec_stmt(s, cur):
                    if oc.kind == NORMAL:
                        nxt.append(s2)
                    else:
                        done.append((s2, oc))
            live = nxt
            if len(live) + len(done) > MAX_PATHS:
                raise OutOfSubset(f"line {s.lineno}: path explosion (> {MAX_PATHS} paths)")
            if not live:
                break
        return [(s, Outcome(NORMAL)) for s in live] + done

    def exec_stmt(self, s, st: State):
        m = getattr(self, "ex_" + type(s).__name__, None)
        if m is None:
            raise OutOfSubset(f"line {s.lineno}: statement {type(s).__name__}")
        return m(s, st)

    def ex_Pass(self, s, st):
        return [(st, Outcome(NORMAL))]

    def ex_Expr(self, s, st):
        if isinstance(s.value, ast.Constant):
            return [(st, Outcome(NORMAL))]
        if isinstance(s.value, ast.Yield):
            return self.do_yield(s.value, st)
        if isinstance(s.value, ast.Call):
            return [(s2, Outcome(NORMAL) if oc.kind == "value" else oc) for s2, oc in self.call_paths(s.value, st)]
        self.ev(s.value, st)
        return [(st, Outcome(NORMAL))]

    def ex_Assert(self, s, st):
        c = self.to_bool(self.ev(s.test, st), s.lineno)
        self.oblig(st, f"assert@{s.lineno}", c, s.lineno)
        st.assume(c)
        return [(st, Outcome(NORMAL))]

    def ex_Import(self, s, st):
        return [(st, Outcome(NORMAL))]

    ex_ImportFrom = ex_Import

    # ------------------------------------------------------------------ assignment
    def rhs_paths(self, node, st):
        """Evaluate an expression that may contain one top-level call with several outcomes."""
        if isinstance(node, ast.Call):
            return self.call_paths(node, st)
        if isinstance(node, ast.Yield):
            raise OutOfSubset(f"line {node.lineno}: yield as expression")
        # calls nested inside expressions must be single-outcome (models / pure contracts)
        return [(st, Outcome("value", self.ev(node, st)))]

    def ex_Assign(self, s, st):
        out = []
        for s2, oc in self.rhs_paths(s.value, st):
            if oc.kind != "value":
                out.append((s2, oc))
                continue
            for t in s.targets:
                self.bind_target(t, oc.value, s2, s.lineno)
                if isinstance(t, ast.Name) and self.contract is not None and self.inline_depth == 0 \
                        and t.id in self.contract.after_assign:
                    for (label, expr) in self.contract.after_assign[t.id]:
                        g_ = self.spec_bool(expr, s2)
                        self.oblig(s2, f"assert-after@{s.lineno}", g_, s.lineno, label=label, cls="H")
                        s2.assume(g_)
            out.append((s2, Outcome(NORMAL)))
        return out

    def ex_AnnAssign(self, s, st):
        if s.value is None:
            return [(st, Outcome(NORMAL))]
        out = []
        for s2, oc in self.rhs_paths(s.value, st):
            if oc.kind != "value":
                out.append((s2, oc))
                continue
            self.bind_target(s.target, oc.value, s2, s.lineno)
            out.append((s2, Outcome(NORMAL)))
        return out

    def ex_AugAssign(self, s, st):
        out = []
        for s2, oc in self.rhs_paths(s.value, st):
            if oc.kind != "value":
                out.append((s2, oc))
                continue
            t = s.target
            if isinstance(t, ast.Subscript):
                base = self.ev(t.value, s2)
                if isinstance(base, VArr) and not isinstance(t.slice, ast.Slice):
                    k = self.to_int(self.ev(t.slice, s2), s.lineno)
                    cur = self.load(s2, base, k, s.lineno)
                    new = self.arith(s.op, cur, oc.value, s2, s.lineno)
                    self.store(s2, base, k, new, s.lineno, check=False)
                    out.append((s2, Outcome(NORMAL)))
                    continue
                if isinstance(base, VArr) and isinstance(t.slice, ast.Slice):
                    lo, hi, step = self.ev_slice_parts(t.slice, s2)
                    view = self.slice_view(s2, base, lo, hi, step, s.lineno)
                    new = self.arith(s.op, view, oc.value, s2, s.lineno)
                    self.assign_slice(s2, view, new, s.lineno)
                    out.append((s2, Outcome(NORMAL)))
                    continue
                if isinstance(base, VRecRow):
                    k = self.ev(t.slice, s2)
                    arr = base.rec.fields[k.s]
                    cur = self.load(s2, arr, base.idx, s.lineno)
                    new = self.arith(s.op, cur, oc.value, s2, s.lineno)
                    self.store(s2, arr, base.idx, new, s.lineno, check=False)
                    out.append((s2, Outcome(NORMAL)))
                    continue
                raise OutOfSubset(f"line {s.lineno}: augmented store into {base!r}")
            cur = self.ev(t, s2)
            if isinstance(cur, VArr):
                # in-place array op: a /= x
                new = self.arith(s.op, cur, oc.value, s2, s.lineno)
                self.assign_slice(s2, cur, new, s.lineno)
                out.append((s2, Outcome(NORMAL)))
                continue
            if isinstance(cur, VList) and isinstance(s.op, ast.Add) and isinstance(oc.value, VList):
                self.writable(s2, cur, s.lineno).items.extend(oc.value.items)
                out.append((s2, Outcome(NORMAL)))
                continue
            new = self.arith(s.op, cur, oc.value, s2, s.lineno)
            self.bind_target(t, new, s2, s.lineno)
            out.append((s2, Outcome(NORMAL)))
        return out

    def typed_local(self, name, v, st):
        """numba `locals={...}` coercion of a scalar local."""
        fi = self.fi
        if fi is not None and fi.njit and name in fi.locals_ and self.inline_depth == 0:
            t = fi.locals_[name]
            if t in ("f8", "f4") and self.is_num(v) and not isinstance(v, VReal):
                return VReal(self.to_real(v))
        return v

    def bind_target(self, t, v, st, line=0):
        if isinstance(t, ast.Name):
            st.env[t.id] = self.typed_local(t.id, v, st)
            return
        if isinstance(t, (ast.Tuple, ast.List)):
            if isinstance(v, (VTuple, VList)):
                if len(v.items) != len(t.elts):
                    raise OutOfSubset(f"line {line}: unpack arity")
                for e, x in zip(t.elts, v.items):
                    self.bind_target(e, x, st, line)
                return
            raise OutOfSubset(f"line {line}: unpack of {v!r}")
        if isinstance(t, ast.Subscript):
            base = self.ev(t.value, st)
            if isinstance(base, VArr):
                if isinstance(t.slice, ast.Slice):
                    lo, hi, step = self.ev_slice_parts(t.slice, st)
                    view = self.slice_view(st, base, lo, hi, step, line)
                    self.assign_slice(st, view, v, line)
                else:
                    self.store(st, base, self.to_int(self.ev(t.slice, st), line), v, line)
                return
            if isinstance(base, VArr2):
                sub = self.subscript2(base, t.slice, st, line)
                if isinstance(sub, VArr):
                    self.assign_slice(st, sub, v, line)
                    return
                raise OutOfSubset(f"line {line}: 2-D element store")
            if isinstance(base, VRecRow):
                k = self.ev(t.slice, st)
                self.store(st, base.rec.fields[k.s], base.idx, v, line)
                return
            if isinstance(base, VDict):
                k = self.ev(t.slice, st)
                if isinstance(k, VStr) and k.s is not None:
                    self.writable(st, base, line).d[k.s] = v
                    return
            if isinstance(base, VList):
                c = smt.conc_int(self.to_int(self.ev(t.slice, st), line))
                if c is not None:
                    self.writable(st, base, line).items[c] = v
                    return
            raise OutOfSubset(f"line {line}: store into {base!r}")
        if isinstance(t, ast.Attribute):
            base = self.ev(t.value, st)
            if isinstance(base, VObj):
                st.objs[base.oid][t.attr] = v
                return
            raise OutOfSubset(f"line {line}: attribute store on {base!r}")
        raise OutOfSubset(f"line {line}: assignment target {type(t).__name__}")

    # ------------------------------------------------------------------ control flow
    def ex_If(self, s, st):
        out = []
        for s0, oc in self.cond_paths(s.test, st):
            if oc.kind != "value":
                out.append((s0, oc))
                continue
            c = oc.value
            cc = smt.conc_bool(c)
            if cc is True:
                out.extend(self.exec_block(s.body, s0))
                continue
            if cc is False:
                out.extend(self.exec_block(s.orelse, s0) if s.orelse else [(s0, Outcome(NORMAL))])
                continue
            s1, s2 = s0, s0.fork()
            s1.assume(c)
            s2.assume(z3.Not(c))
            if self.feasible(s1):
                out.extend(self.exec_block(s.body, s1))
            if self.feasible(s2):
                out.extend(self.exec_block(s.orelse, s2) if s.orelse else [(s2, Outcome(NORMAL))])
        return out

    def cond_paths(self, test, st):
        if isinstance(test, ast.Call):
            res = []
            for s2, oc in self.call_paths(test, st):
                if oc.kind == "value":
                    res.append((s2, Outcome("value", self.to_bool(oc.value, test.lineno))))
                else:
                    res.append((s2, oc))
            return res
        return [(st, Outcome("value", self.to_bool(self.ev(test, st), test.lineno)))]

    def feasible(self, st: State):
        if not getattr(self, "prune", True):
            return True
        with smt.side_query():
            r, _ = smt.check_sat(st.pc, timeout_ms=300)
        return r != "unsat"

    def ex_Return(self, s, st):
        if s.value is None:
            return [(st, Outcome("return", NONE, line=s.lineno))]
        out = []
        for s2, oc in self.rhs_paths(s.value, st):
            if oc.kind != "value":
                out.append((s2, oc))
            else:
                out.append((s2, Outcome("return", oc.value, line=s.lineno)))
        return out

    def ex_Raise(self, s, st):
        exc = s.exc
        name = None
        if isinstance(exc, ast.Call):
            exc = exc.func
        if isinstance(exc, ast.Name):
            name = exc.id
        if name is None:
            raise OutOfSubset(f"line {s.lineno}: raise form")
        return [(st, Outcome("raise", exc=name, line=s.lineno))]

    def ex_Break(self, s, st):
        return [(st, Outcome("break"))]

    def ex_Continue(self, s, st):
        return [(st, Outcome("continue"))]

    def ex_With(self, s, st):
        # `with X as y:` on objects whose __enter__ returns self and __exit__ closes (FileBase) / ExitStack
        live = [st]
        for it in s.items:
            nxt = []
            for cur in live:
                for s2, oc in self.rhs_paths(it.context_expr, cur):
                    if oc.kind != "value":
                        raise OutOfSubset(f"line {s.lineno}: context manager expression may raise")
                    if it.optional_vars is not None:
                        self.bind_target(it.optional_vars, oc.value, s2, s.lineno)
                    s2.ghost.setdefault("with_stack", [])
                    s2.ghost["with_stack"] = s2.ghost["with_stack"] + [oc.value]
                    nxt.append(s2)
            live = nxt
        out = []
        for cur in live:
            for s2, oc in self.exec_block(s.body, cur):
                cms = s2.ghost.get("with_stack", [])[-len(s.items):]
                s2.ghost["with_stack"] = s2.ghost.get("with_stack", [])[:-len(s.items)]
                for cm in reversed(cms):
                    self.with_exit(cm, s2, s.lineno)
                out.append((s2, oc))
        return out

    def with_exit(self, cm, st, line):
        hook = getattr(self, "on_with_exit", None)
        if hook is not None:
            hook(cm, st, line)

    def ex_Try(self, s, st):
        raise OutOfSubset(f"line {s.lineno}: try/except")

    # ------------------------------------------------------------------ loops
    def next_loop_id(self, node=None):
        """Loop ordinal in source order (pre-order), stable whatever path reaches the loop."""
        ids = getattr(self, "loop_ids", None)
        if ids is not None and node is not None and id(node) in ids:
            return ids[id(node)]
        i = self.loop_counter
        self.loop_counter += 1
        return i

    def loop_spec(self, lid, var):
        key = f"{lid}:{var}"
        c = self.contract
        if c is not None and self.inline_depth == 0 and key in c.loops:
            self.loops_seen.add(key)
            return c.loops[key]
        return None

    def ex_For(self, s, st):
        if s.orelse:
            raise OutOfSubset(f"line {s.lineno}: for/else")
        lid = self.next_loop_id(s) if self.inline_depth == 0 else -1
        # count nested loops now so ids are stable whatever path is taken
        nested = sum(1 for n in ast.walk(s) if isinstance(n, (ast.For, ast.While))) - 1
        first_nested = self.loop_counter
        if self.inline_depth == 0:
            self.loop_counter += nested
        out = []
        for s0, oc in self.rhs_paths(s.iter, st):
            if oc.kind != "value":
                out.append((s0, oc))
                continue
            it = oc.value
            out.extend(self.for_over(s, s0, it, lid, first_nested))
        return out

    def for_over(self, s, st, it, lid, first_nested):
        var = s.target.id if isinstance(s.target, ast.Name) else "_".join(
            n.id for n in ast.walk(s.target) if isinstance(n, ast.Name))
        spec = self.loop_spec(lid, var)
        line = s.lineno
        if isinstance(it, VFunc) and it.kind == "genobj":
            return self.for_generator(s, st, it, lid, first_nested, spec)
        if isinstance(it, (VList, VTuple)):
            return self.for_unrolled(s, st, it.items, first_nested)
        if isinstance(it, VRange):
            clo, chi, cstep = (smt.conc_int(x) for x in (it.lo, it.hi, it.step))
            if clo is not None and chi is not None and cstep is not None and (spec is None or spec.unroll):
                vals = list(range(clo, chi, cstep))
                if len(vals) <= UNROLL_LIMIT or (spec is not None and spec.unroll):
                    return self.for_unrolled(s, st, [VInt(v) for v in vals], first_nested)
            if cstep != 1 and not (cstep is not None and cstep > 0):
                raise OutOfSubset(f"line {line}: range step {it.step}")
            return self.for_range(s, st, it, lid, first_nested, spec, var)
        if isinstance(it, VSeq):
            return self.for_seq(s, st, it, lid, first_nested, spec, var)
        if isinstance(it, VArr):
            return self.for_seq(s, st, VSeq(it.n, lambda k, a=it, S=st: self.load(S, a, k, line, check=False)),
                                lid, first_nested, spec, var)
        raise OutOfSubset(f"line {line}: iteration over {it!r}")

    def for_unrolled(self, s, st, items, first_nested):
        live = [st]
        done = []
        for x in items:
            nxt = []
            for cur in live:
                self.loop_counter_save = self.loop_counter
                if self.inline_depth == 0:
                    self.loop_counter = first_nested
                self.bind_target(s.target, x, cur, s.lineno)
                for s2, oc in self.exec_block(s.body, cur):
                    if oc.kind in (NORMAL, "continue"):
                        nxt.append(s2)
                    elif oc.kind == "break":
                        done.append((s2, Outcome(NORMAL)))
                    else:
                        done.append((s2, oc))
                if self.inline_depth == 0:
                    self.loop_counter = max(self.loop_counter, self.loop_counter_save)
            live = nxt
        return [(x, Outcome(NORMAL)) for x in live] + done

    # -- modifies-set of a loop body ---------------------------------------------------------
    def loop_modifies(self, body, st):
        """(scalar names, heap objects, object fields) possibly changed by the body (syntactic)."""
        names = assigned_names(body)
        if self.contract is not None and self.inline_depth == 0 and self.contract.yield_ghost and \
                any(isinstance(n, ast.Yield) for s_ in body for n in ast.walk(s_)):
            names |= set(self.contract.yield_ghost)
        objs = set()
        fields = set()
        for stmt in body:
            for n in ast.walk(stmt):
                tgts = []
                if isinstance(n, ast.Assign):
                    tgts = n.targets
                elif isinstance(n, ast.AugAssign):
                    tgts = [n.target]
                for t in tgts:
                    for tt in (t.elts if isinstance(t, (ast.Tuple, ast.List)) else [t]):
                        if isinstance(tt, ast.Subscript):
                            self._mod_obj_of(tt.value, st, objs)
                        elif isinstance(tt, ast.Attribute):
                            try:
                                b = self.quiet_ev(tt.value, st)
                                if isinstance(b, VObj):
                                    fields.add((b.oid, tt.attr))
                            except OutOfSubset:
                                pass
                if isinstance(n, ast.Call):
                    self.call_modifies(n, st, objs, fields)
                    if isinstance(n.func, ast.Attribute) and n.func.attr == "append" \
                            and isinstance(n.func.value, ast.Name) and n.func.value.id in st.env:
                        cur = st.env[n.func.value.id]
                        if isinstance(cur, VList) and not cur.items:
                            from .iomodel import chunklist_new
                            st.env[n.func.value.id] = chunklist_new(self, st)
                            cur = st.env[n.func.value.id]
                            # dry run of the body to learn the element kind of what is appended
                            sub = st.fork()
                            n_obl, lc, cc = len(self.obls), self.loop_counter, dict(self.call_counter)
                            try:
                                for s2, _oc in self.exec_block(body, sub):
                                    k2 = s2.hmeta[s2.objs[cur.oid]["obj"]]
                                    if not s2.objs[cur.oid].get("fresh", True):
                                        st.objs[cur.oid]["obj"] = self.new_obj(st, k2["kind"], k2.get("dtype"), "chunks")
                                        break
                            except OutOfSubset:
                                pass
                            finally:
                                del self.obls[n_obl:]
                                self.loop_counter, self.call_counter = lc, cc
                        if isinstance(cur, VObj) and cur.cls == "ChunkList":
                            names.add(n.func.value.id)
        return names, objs, fields

    def quiet_ev(self, node, st):
        sub = st.fork()
        sub.acc = None
        self.spec_depth += 1
        n_obl = len(self.obls)
        try:
            return self.ev(node, sub)
        finally:
            self.spec_depth -= 1
            del self.obls[n_obl:]

    def _mod_obj_of(self, node, st, objs):
        # base expression of a store: name, name[...], name["field"]
        while isinstance(node, ast.Subscript):
            inner = node.value
            try:
                v = self.quiet_ev(node, st)
            except OutOfSubset:
                v = None
            if isinstance(v, (VArr, VArr2)):
                objs.add(v.obj)
                return
            node = inner
        try:
            v = self.quiet_ev(node, st)
        except OutOfSubset:
            return
        if isinstance(v, (VArr, VArr2)):
            objs.add(v.obj)
        elif isinstance(v, VRecArr):
            for a in v.fields.values():
                objs.add(a.obj)

    def havoc_loop(self, st, names, objs, fields, tag):
        for n in names:
            if n in st.env:
                st.env[n] = self.havoc_value(st.env[n], st, n)
        for o in objs:
            if o in st.heap:
                self.havoc_obj(st, o, tag)
        for (oid, f) in fields:
            if oid in st.objs and f in st.objs[oid]:
                cur_ = st.objs[oid][f]
                if isinstance(cur_, VObj) and cur_.cls in ("ChunkList", "OutFile", "FileWriter", "BitsInfo", "Header"):
                    continue  # sub-objects keep their identity; their own fields are in the set
                st.objs[oid][f] = self.havoc_value(cur_, st, f)

    def havoc_value(self, v, st, name="v"):
        if isinstance(v, VInt):
            return VInt(smt.fresh(name))
        if isinstance(v, VReal):
            return VReal(smt.fresh(name, REAL))
        if isinstance(v, VBool):
            return VBool(smt.fresh(name, BOOL))
        if isinstance(v, VBV):
            return VBV(smt.fresh(name, v.t.sort()))
        if isinstance(v, VTuple):
            return VTuple([self.havoc_value(x, st, name) for x in v.items])
        if isinstance(v, VArr):
            # the variable may be rebound to another view of the same kind: keep object, havoc geometry
            return v
        if isinstance(v, VObj) and v.cls in ("FileIO",):
            fields = {k: self.havoc_value(x, st, k) for k, x in st.objs[v.oid].items()}
            return VObj(self.new_oid(st, fields), v.cls, v.file)
        if isinstance(v, VObj) and v.cls == "ChunkList":
            f = st.objs[v.oid]
            self.havoc_obj(st, f["obj"], "cl")
            f["n"] = VInt(smt.fresh("chunks_n"))
            st.assume(f["n"].t >= 0)
            return v
        return v

    def cover(self, st, label, line):
        from .state import Obligation
        if self.inline_depth:
            return
        name = f"{self.cur_func}/cover:{label}[{self.cur_case}]"
        self.obls.append(Obligation(name, "cover", list(st.pc), z3.BoolVal(True), self.cur_func, line, "C", label,
                                    case=self.cur_case))

    def check_invs(self, st, spec: LoopSpec, kind, lid, var, line):
        if kind == "inv-init":
            for (label, expr) in spec.init_hints:
                g_ = self.spec_bool(expr, st)
                self.oblig(st, f"init-hint#{lid}", g_, line, label=label, cls="H")
                st.assume(g_)
        if kind == "inv-keep":
            for (label, expr) in spec.end_hints:
                g_ = self.spec_bool(expr, st)
                self.oblig(st, f"end-hint#{lid}", g_, line, label=label, cls="H")
                st.assume(g_)
        for (label, expr) in spec.invariants:
            g = self.spec_bool(expr, st)
            self.oblig(st, f"{kind}#{lid}", g, line, label=label, cls="P")

    def assume_invs(self, st, spec: LoopSpec):
        for (label, expr) in spec.invariants:
            st.assume(self.spec_bool(expr, st))

    def for_range(self, s, st, it: VRange, lid, first_nested, spec, var):
        line = s.lineno
        if spec is None:
            spec = LoopSpec()  # trivial invariant: sound havoc, nothing known after the loop but the frame
        step = it.step
        cstep = smt.conc_int(step)
        lo, hi = it.lo, it.hi
        names, objs, fields = self.loop_modifies(s.body, st)
        names.discard(var)
        # invariant on entry
        st.env[var] = VInt(lo)
        st.ghost[f"lo#{lid}"] = lo
        self.check_invs(st, spec, "inv-init", lid, var, line)
        # arbitrary iteration
        body_st = st.fork()
        self.havoc_loop(body_st, names, objs, fields, f"L{lid}")
        i = smt.fresh(var)
        body_st.env[var] = VInt(i)
        if cstep == 1:
            body_st.assume(z3.And(lo <= i, i < hi))
        else:
            kk = smt.fresh("it")
            body_st.assume(z3.And(kk >= 0, i == lo + kk * step, i < hi))
        self.assume_invs(body_st, spec)
        self.cover(body_st, f"loop-body#{lid}", line)
        later = body_st.fork()
        later.assume(i > lo)
        self.cover(later, f"loop-body-later#{lid}", line)
        for (label, expr) in spec.body_hints:
            g_ = self.spec_bool(expr, body_st)
            self.oblig(body_st, f"hint#{lid}", g_, line, label=label, cls="H")
            body_st.assume(g_)
        exits = []
        save = self.loop_counter
        if self.inline_depth == 0:
            self.loop_counter = first_nested
        for s2, oc in self.exec_block(s.body, body_st):
            if oc.kind in (NORMAL, "continue"):
                s2.env[var] = VInt(i + step)
                self.check_invs(s2, spec, "inv-keep", lid, var, line)
            elif oc.kind == "break":
                exits.append((s2, Outcome(NORMAL)))
            else:
                exits.append((s2, oc))
        if self.inline_depth == 0:
            self.loop_counter = max(save, self.loop_counter)
        # after the loop
        after = st
        self.havoc_loop(after, names, objs, fields, f"L{lid}x")
        if cstep == 1:
            fin = smt.simp(z3.If(hi > lo, hi, lo))
        else:
            fin = smt.fresh(var + "_end")
            kk = smt.fresh("it")
            after.assume(z3.And(kk >= 0, fin == lo + kk * step, fin >= hi, z3.Or(kk == 0, fin - step < hi)))
        after.env[var] = VInt(fin)
        self.assume_invs(after, spec)
        # Python leaves the loop variable at its last value; uses after the loop are rare: poison it
        after.env[var] = VInt(smt.fresh(var + "_after"))
        return [(after, Outcome(NORMAL))] + exits

    def for_seq(self, s, st, seq: VSeq, lid, first_nested, spec, var):
        """Iteration over a sequence of symbolic length: index-wise, ghost index `_k<lid>`."""
        line = s.lineno
        if spec is None:
            spec = LoopSpec()
        kname = f"_k{lid}"
        names, objs, fields = self.loop_modifies(s.body, st)
        for n in ast.walk(s.target):
            if isinstance(n, ast.Name):
                names.discard(n.id)
        st.env[kname] = VInt(0)
        self.check_invs(st, spec, "inv-init", lid, var, line)
        body0 = st.fork()
        self.havoc_loop(body0, names, objs, fields, f"L{lid}")
        k = smt.fresh(kname)
        body0.env[kname] = VInt(k)
        body0.assume(z3.And(0 <= k, k < seq.n))
        self.assume_invs(body0, spec)
        self.cover(body0, f"loop-body#{lid}", line)
        later = body0.fork()
        later.assume(k >= 1)
        self.cover(later, f"loop-body-later#{lid}", line)
        # an appended last element is executed as its own branch (no if-then-else block values)
        branches = []
        if seq.last is not None:
            n0, f0, item = seq.last
            b1, b2 = body0, body0.fork()
            b1.assume(k < n0)
            b2.assume(k == n0)
            if self.feasible(b1):
                branches.append((b1, lambda kk: f0(kk)))
            if self.feasible(b2):
                branches.append((b2, lambda kk: item))
        else:
            branches.append((body0, seq.elem))
        exits = []
        save = self.loop_counter
        for body_st, elem_fn in branches:
            self.bind_target(s.target, elem_fn(k), body_st, line)
            if self.inline_depth == 0:
                self.loop_counter = first_nested
            for s2, oc in self.exec_block(s.body, body_st):
                if oc.kind in (NORMAL, "continue"):
                    s2.env[kname] = VInt(k + 1)
                    self.check_invs(s2, spec, "inv-keep", lid, var, line)
                elif oc.kind == "break":
                    exits.append((s2, Outcome(NORMAL)))
                else:
                    exits.append((s2, oc))
        if self.inline_depth == 0:
            self.loop_counter = max(save, self.loop_counter)
        after = st
        self.havoc_loop(after, names, objs, fields, f"L{lid}x")
        after.env[kname] = VInt(seq.n)
        after.assume(seq.n >= 0)
        self.assume_invs(after, spec)
        return [(after, Outcome(NORMAL))] + exits

    def for_generator(self, s, st, it, lid, first_nested, spec):
        """Consumer of a generator under a yield contract (read_plan): symbolic block index k in [0, K).

        Per call instance: K >= 1 blocks, offsets boff(k), lengths bn(k) with the clauses proved for the
        generator (C01): 0 <= bn(k) <= G, boff(0) == 0, boff(k+1) == boff(k) + bn(k) - S, bn(k) >= S for k >= 1,
        0 <= boff(k), boff(k) + bn(k) <= N, boff(K-1) + bn(K-1) == N; helper clauses (H): boff(k) == k*(G-S),
        K > 1 implies G == gulp.  The block is a view of the ghost sample array XS at (start+boff(k))*nchans
        (read-only consumers) or a fresh copy of it (consumers that write the block)."""
        from .iomodel import XS_OBJ, xs_object
        c, g, gself = it.ref
        line = s.lineno
        if spec is None:
            spec = LoopSpec()
        G, S, N = (self.to_int(g[k]) for k in ("G", "S", "N"))
        start, nchans, gulp = (self.to_int(g[k]) for k in ("start", "nchans", "gulp"))
        inst = self.call_counter.get("#gen", 0)
        self.call_counter["#gen"] = inst + 1
        K = smt.fresh("bK")
        boff = z3.Function(f"boff{inst}", INT, INT)
        bn = z3.Function(f"bn{inst}", INT, INT)
        kname = f"_k{lid}"
        self.assume_tag("GEN:read_plan yield contract (C01)")
        raised = []
        # rejected before anything is yielded
        rej = st.fork()
        rej.assume(S >= G)
        if self.feasible(rej):
            raised.append((rej, Outcome("raise", exc="ValueError", line=line)))
        st.assume(S < G)
        j = smt.fresh("kb")
        facts = [K >= 1, boff(0) == 0, boff(K - 1) + bn(K - 1) == N,
                 z3.ForAll([j], z3.Implies(z3.And(0 <= j, j < K),
                                           z3.And(bn(j) >= 0, bn(j) <= G, boff(j) >= 0, boff(j) + bn(j) <= N,
                                                  z3.Implies(j >= 1, bn(j) >= S),
                                                  boff(j) == smt.som(j * (G - S)),
                                                  z3.Implies(j + 1 < K, boff(j + 1) == boff(j) + bn(j) - S))),
                           patterns=[bn(j), boff(j)]),
                 z3.Implies(K > 1, G == gulp)]
        for f in facts:
            st.assume(f)
        xs_object(self, st)
        # dtype / value range of the unpacked samples follow the input depth (C03 range clause)
        try:
            nb_in = smt.conc_int(self.to_int(st.objs[st.objs[gself.oid]["_header"].oid]["nbits"]))
        except Exception:  # noqa: BLE001
            nb_in = None
        if nb_in in (1, 2, 4, 8, 16, 32):
            st.hmeta[XS_OBJ] = dict(st.hmeta[XS_OBJ], dtype={16: "u2", 32: "f4"}.get(nb_in, "u1"))
            if nb_in != 32:
                # range of the unpacked samples (C03 range clause): handed only to the obligations that need it
                jx = smt.fresh("jx")
                el_ = z3.Select(st.heap[XS_OBJ], jx)
                st.ghost["xs_range"] = z3.ForAll([jx], z3.And(el_ >= 0, el_ <= (1 << nb_in) - 1), patterns=[el_])
        st.ghost["gen"] = dict(K=K, boff=boff, bn=bn)
        self.gen_specs = {"bK": K, "boff": boff, "bn": bn}
        names, objs, fields = self.loop_modifies(s.body, st)
        for n_ in ast.walk(s.target):
            if isinstance(n_, ast.Name):
                names.discard(n_.id)
        st.env[kname] = VInt(0)
        self.check_invs(st, spec, "inv-init", lid, "gen", line)
        body_st = st.fork()
        self.havoc_loop(body_st, names, objs, fields, f"L{lid}")
        k = smt.fresh(kname)
        body_st.env[kname] = VInt(k)
        body_st.assume(z3.And(0 <= k, k < K))
        # instances of the block clauses at k and k+1 (the quantified form stays available)
        for kk in (k, k + 1):
            body_st.assume(z3.Implies(z3.And(0 <= kk, kk < K),
                                      z3.And(bn(kk) >= 0, bn(kk) <= G, boff(kk) >= 0, boff(kk) + bn(kk) <= N,
                                             z3.Implies(kk >= 1, bn(kk) >= S), boff(kk) == smt.som(kk * (G - S)))))
        body_st.assume(z3.Implies(k + 1 < K, boff(k + 1) == boff(k) + bn(k) - S))
        # the same step in units of array elements (consumers index by sample * nchans): a consequence of the line above
        # multiplied by nchans, stated so that no distribution of a product over a sum is left to the solver
        body_st.assume(z3.Implies(k + 1 < K, nchans * boff(k + 1) == nchans * boff(k) + nchans * bn(k) - nchans * S))
        body_st.assume(z3.Implies(k + 1 == K, z3.And(boff(k) + bn(k) == N, nchans * boff(k) + nchans * bn(k) == nchans * N)))
        self.assume_invs(body_st, spec)
        self.cover(body_st, f"loop-body#{lid}", line)
        later = body_st.fork()
        later.assume(k >= 1)
        self.cover(later, f"loop-body-later#{lid}", line)
        base = smt.som((start + boff(k)) * nchans)
        blen = smt.som(bn(k) * nchans)
        if getattr(self.contract, "gen_copy", False):
            jj = z3.Int("j!blk")
            bobj = self.new_obj(body_st, "real", body_st.hmeta[XS_OBJ].get("dtype"), "block",
                                contents=z3.Lambda([jj], z3.Select(body_st.heap[XS_OBJ], base + jj)))
            data = VArr(bobj, z3.IntVal(0), z3.IntVal(1), blen)
        else:
            data = VArr(XS_OBJ, base, z3.IntVal(1), blen)
        xs_before = body_st.heap[XS_OBJ]
        self.bind_target(s.target, VTuple([VInt(bn(k)), VInt(k), data]), body_st, line)
        for (label, expr) in spec.body_hints:
            g_ = self.spec_bool(expr, body_st)
            self.oblig(body_st, f"hint#{lid}", g_, line, label=label, cls="H")
            body_st.assume(g_)
        exits = list(raised)
        save = self.loop_counter
        if self.inline_depth == 0:
            self.loop_counter = first_nested
        for s2, oc in self.exec_block(s.body, body_st):
            if s2.heap[XS_OBJ] is not xs_before:
                self.oblig(s2, f"frame@{line}", s2.heap[XS_OBJ] == xs_before, line, label="consumer writes the read buffer")
            if oc.kind in (NORMAL, "continue"):
                s2.env[kname] = VInt(k + 1)
                self.check_invs(s2, spec, "inv-keep", lid, "gen", line)
            elif oc.kind == "break":
                exits.append((s2, Outcome(NORMAL)))
            else:
                exits.append((s2, oc))
        if self.inline_depth == 0:
            self.loop_counter = max(save, self.loop_counter)
        after = st
        self.havoc_loop(after, names, objs, fields, f"L{lid}x")
        after.env[kname] = VInt(K)
        self.assume_invs(after, spec)
        for n_ in ast.walk(s.target):
            if isinstance(n_, ast.Name):
                after.env.pop(n_.id, None)
        return [(after, Outcome(NORMAL))] + exits

    def ex_While(self, s, st):
        if s.orelse:
            raise OutOfSubset(f"line {s.lineno}: while/else")
        lid = self.next_loop_id(s) if self.inline_depth == 0 else -1
        nested = sum(1 for n in ast.walk(s) if isinstance(n, (ast.For, ast.While))) - 1
        first_nested = self.loop_counter
        if self.inline_depth == 0:
            self.loop_counter += nested
        spec = self.loop_spec(lid, "while") or LoopSpec()
        line = s.lineno
        names, objs, fields = self.loop_modifies(s.body, st)
        self.check_invs(st, spec, "inv-init", lid, "while", line)
        body_st = st.fork()
        self.havoc_loop(body_st, names, objs, fields, f"W{lid}")
        self.assume_invs(body_st, spec)
        after = body_st.fork()
        c = self.to_bool(self.ev(s.test, body_st), line)
        body_st.assume(c)
        self.cover(body_st, f"loop-body#{lid}", line)
        exits = []
        save = self.loop_counter
        if self.inline_depth == 0:
            self.loop_counter = first_nested
        if spec.decreases is not None:
            d0 = self.to_int(self.spec_val(spec.decreases, body_st))
        if self.feasible(body_st):
            for s2, oc in self.exec_block(s.body, body_st):
                if oc.kind in (NORMAL, "continue"):
                    self.check_invs(s2, spec, "inv-keep", lid, "while", line)
                    if spec.decreases is not None:
                        d1 = self.to_int(self.spec_val(spec.decreases, s2))
                        self.oblig(s2, f"variant#{lid}", z3.And(d0 >= 0, d1 < d0), line)
                elif oc.kind == "break":
                    exits.append((s2, Outcome(NORMAL)))
                else:
                    exits.append((s2, oc))
        if self.inline_depth == 0:
            self.loop_counter = max(save, self.loop_counter)
        c2 = self.to_bool(self.ev(s.test, after), line)
        after.assume(z3.Not(c2))
        res = exits
        if self.feasible(after):
            res = [(after, Outcome(NORMAL))] + exits
        return res

    # ------------------------------------------------------------------ yield
    def do_yield(self, node, st):
        v = self.ev(node.value, st) if node.value is not None else NONE
        hook = getattr(self, "on_yield", None)
        if hook is None:
            raise OutOfSubset(f"line {node.lineno}: yield outside a generator contract")
        hook(st, v, node.lineno)
        return [(st, Outcome(NORMAL))]
