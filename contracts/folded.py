"""C17: the phase-shift bookkeeping of FoldedData (sigpyproc/foldedcube.py).

FoldedData keeps, per sub-band, the phase shift already applied for the DM (`_fph_shifts`) and, per sub-integration,
the shift already applied for the period (`_tph_shifts`).  update_dm / update_period roll every profile by the
*increment* returned by _get_dmdelays / _get_pdelays.  The property (history independence, idempotence, return to
the original) follows from two clauses per function, proved here for all cubes and all targets:

  target:     the recorded shift after the call is T(target) -- a function of the target value and of the values
              the cube was FOLDED with (`_fold_dm`, `_fold_period`, header, shape) only; no mutable state enters.
              T(fold value) == 0.
  increment:  result[j] + old(recorded[j]) == T(target)[j]     (what is rolled now is the difference)

By induction over any history the total roll applied to profile (i, j) is then T_dm(final dm)[j] + T_p(final
period)[i] (telescoping sum), whatever came before: the cube depends only on the final values, repeating an update
adds a zero increment, and returning to the folding values restores total roll 0.  The telescoping step itself is
the client lemma `verif:folded_history` below (two updates vs one), proved against these contracts.

Assumed (trusted): params.compute_dmdelays returns one int32 delay per frequency that is a deterministic function
DDF(dm, tsamp, ref_freq, j) of its scalar arguments and the index (float32 numpy expression, outside the subset);
np.round is the uninterpreted integer-valued rndf.  That np.roll by a and then by b equals np.roll by a+b is numpy's
(checked by the bounded driver, which compares whole cubes).
"""
from pvc.contract import Arr, Const, Contract, Int, LoopSpec, Obj, Opaque, Real, Tup

FC = "sigpyproc/foldedcube.py::"
P = "sigpyproc/params.py::"


def folded_self():
    hdr = Obj("Header", file="sigpyproc/header.py",
              fields={"foff": Real(), "nchans": Int(1), "fch1": Real(), "tsamp": Real(), "nsamples": Int(0)})
    data = Obj("ndarray3", fields={"shape": Tup([Int(1), Int(1), Int(1)])})
    return Obj("FoldedData", file="sigpyproc/foldedcube.py",
               fields={"_data": data, "_hdr": hdr, "_period": Real(), "_dm": Real(), "_fold_period": Real(),
                       "_fold_dm": Real(), "_tph_shifts": Arr("int", "i4"), "_fph_shifts": Arr("int", "i4")})


RI = ("len(self._fph_shifts) == self._data.shape[1] and len(self._tph_shifts) == self._data.shape[0] "
      "and self._fold_period != 0")
TDM = ("(0 if {dm} == self._fold_dm else DDF({dm} - self._fold_dm, self._fold_period / self._data.shape[2], "
       "self._hdr.fch1, j))")
DBINS = ("(({p} / self._fold_period - 1) * (self._hdr.tsamp * self._hdr.nsamples) * self._data.shape[2] "
         "/ self._fold_period)")
TP = "(0 if {db} == 0 else rndf(i / (self._data.shape[0] / {db})))"


def register(reg):
    c = Contract(P + "compute_dmdelays", props=["C17"], trusted=True,
                 trusted_reason="float32 numpy broadcasting expression (power law, round, squeeze) outside the subset; "
                                "assumed: one int32 delay per frequency, a deterministic function DDF of "
                                "(dm, tsamp, ref_freq, index) for the frequency grid of the cube",
                 params={"freqs": Arr("real", "f8"), "dm": Real(), "tsamp": Real(), "ref_freq": Real(),
                         "in_samples": Const(True)}, ret=Arr("int", "i4"),
                 # the function ends with .squeeze(): for a single frequency the result is a 0-d array
                 ret_meta={"zerod_if": "len(freqs) == 1"})
    c.ensure("shape", "len(result) == len(freqs)")
    c.ensure("law", "forall(j, 0, len(freqs), result[j] == DDF(dm, tsamp, ref_freq, j))")
    reg.add(c)

    c = Contract(FC + "FoldedData._get_dmdelays", props=["C17"], params={"self": folded_self(), "newdm": Real()},
                 requires=[RI], modifies=["self._fph_shifts"], ret=Arr("int", "i4"))
    c.ensure("RI", RI)
    c.ensure("shape", "len(result) == self._data.shape[1] and not zerod(result) and not zerod(self._fph_shifts)")
    c.ensure("target", "forall(j, 0, self._data.shape[1], self._fph_shifts[j] == " + TDM.format(dm="newdm") + ")")
    c.ensure("increment", "forall(j, 0, self._data.shape[1], result[j] + old(self._fph_shifts[j]) == "
             + TDM.format(dm="newdm") + ")")
    c.ensure("frame", "self._fold_dm == old(self._fold_dm) and self._fold_period == old(self._fold_period) and "
                      "self._dm == old(self._dm) and self._period == old(self._period)")
    reg.add(c)

    c = Contract(FC + "FoldedData._get_pdelays", props=["C17"], params={"self": folded_self(), "newperiod": Real()},
                 lets={"DB": DBINS.format(p="newperiod")},
                 # the rounded drift of every sub-integration fits the int32 it is stored in (machine range assumption)
                 requires=[RI, "forall(i, 0, self._data.shape[0], -2147483648 <= rndf(i / (self._data.shape[0] / DB)) "
                               "and rndf(i / (self._data.shape[0] / DB)) <= 2147483647)"],
                 modifies=["self._tph_shifts"], ret=Arr("int", "i4"))
    c.ensure("RI", RI)
    c.ensure("shape", "len(result) == self._data.shape[0]")
    c.ensure("target", "forall(i, 0, self._data.shape[0], self._tph_shifts[i] == " + TP.format(db="DB") + ")")
    c.ensure("increment", "forall(i, 0, self._data.shape[0], result[i] + old(self._tph_shifts[i]) == "
             + TP.format(db="DB") + ")")
    c.ensure("original", "implies(newperiod == self._fold_period, forall(i, 0, self._data.shape[0], "
                         "self._tph_shifts[i] == 0))")
    c.ensure("frame", "self._fold_dm == old(self._fold_dm) and self._fold_period == old(self._fold_period) and "
                      "self._dm == old(self._dm) and self._period == old(self._period)")
    reg.add(c)

    # ---- histories (ghost clients, modular: only the two contracts above are visible)
    CL = "verif:specs/clients.py::"
    RNG = ("forall(i, 0, cube._data.shape[0], -2147483648 <= rndf(i / (cube._data.shape[0] / {db})) "
           "and rndf(i / (cube._data.shape[0] / {db})) <= 2147483647)")
    cRI = RI.replace("self.", "cube.")
    cTDM = TDM.replace("self.", "cube.")
    cTP = TP.replace("self.", "cube.")
    cDB = DBINS.replace("self.", "cube.")
    c = Contract(CL + "folded_dm_history", props=["C17"], params={"cube": folded_self(), "a": Real(), "b": Real()},
                 requires=[cRI], modifies=["cube._fph_shifts"], ret=Arr("int", "i4"))
    c.ensure("history-independent", "forall(j, 0, cube._data.shape[1], result[j] + old(cube._fph_shifts[j]) == "
             + cTDM.format(dm="b") + ")")
    c.ensure("return to folding dm", "implies(b == cube._fold_dm, forall(j, 0, cube._data.shape[1], "
                                     "result[j] + old(cube._fph_shifts[j]) == 0))")
    reg.add(c)
    c = Contract(CL + "folded_dm_repeat", props=["C17"], params={"cube": folded_self(), "a": Real()},
                 requires=[cRI], modifies=["cube._fph_shifts"], ret=Arr("int", "i4"))
    c.ensure("idempotent", "forall(j, 0, cube._data.shape[1], result[j] == 0)")
    reg.add(c)
    c = Contract(CL + "folded_mixed_history", props=["C17"],
                 params={"cube": folded_self(), "a": Real(), "p": Real(), "b": Real()},
                 lets={"DBp": cDB.format(p="p")},
                 requires=[cRI, RNG.format(db="DBp")], modifies=["cube._fph_shifts", "cube._tph_shifts"],
                 ret=Arr("int", "i4"))
    c.ensure("history-independent", "forall(j, 0, cube._data.shape[1], result[j] + old(cube._fph_shifts[j]) == "
             + cTDM.format(dm="b") + ")")
    reg.add(c)
    c = Contract(CL + "folded_period_history", props=["C17"], params={"cube": folded_self(), "a": Real(), "b": Real()},
                 lets={"DBa": cDB.format(p="a"), "DBb": cDB.format(p="b")},
                 requires=[cRI, RNG.format(db="DBa"), RNG.format(db="DBb")], modifies=["cube._tph_shifts"],
                 ret=Arr("int", "i4"))
    c.ensure("history-independent", "forall(i, 0, cube._data.shape[0], result[i] + old(cube._tph_shifts[i]) == "
             + cTP.format(db="DBb") + ")")
    c.ensure("return to folding period", "implies(b == cube._fold_period, forall(i, 0, cube._data.shape[0], "
                                         "result[i] + old(cube._tph_shifts[i]) == 0))")
    reg.add(c)
    c = Contract(CL + "folded_period_repeat", props=["C17"], params={"cube": folded_self(), "a": Real()},
                 lets={"DBa": cDB.format(p="a")},
                 requires=[cRI, RNG.format(db="DBa")], modifies=["cube._tph_shifts"], ret=Arr("int", "i4"))
    c.ensure("idempotent", "forall(i, 0, cube._data.shape[0], result[i] == 0)")
    reg.add(c)
