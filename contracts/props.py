"""Per-property check configuration (levels, bounded stand-ins, trusted base)."""
COMMON_ASSUME = [
    "A-PY: CPython evaluates the translated subset as encoded (guarded by mutant and replay cross-checks)",
    "A-SMT: z3 5.1.0 / cvc5 1.0.3 'unsat' answers are sound",
]
PROPS = {
    "C03": dict(
        level="proof",
        bounded="bounded/c03.py",
        trusted_base=["numba compiles each kernel to the typed semantics of its Python body (A-NUMBA)",
                      "numpy.zeros returns a zero-filled array of the requested size (A-NP)"],
        assumptions=COMMON_ASSUME + ["A-NUMBA", "A-NP(zeros)"],
        level_text="Every obligation generated from the current source of the 12 kernels, bits.unpack, bits.pack and the "
                   "two round-trip clients is discharged by z3 for all byte values (bit-vector theory) and all array "
                   "lengths (inductive loop invariants): a proof, not a sample.",
        level_note="Trusted: numba's compilation of each kernel to its typed Python semantics, numpy.zeros, z3. Bit "
                   "arithmetic is 64-bit bit-vector arithmetic with truncating uint8 stores; index arithmetic is "
                   "mathematical (no int64 overflow for array sizes < 2^60). Bit-order strings other than those "
                   "beginning with b/l must be rejected; other b*/l* spellings are left unconstrained. Bounded "
                   "stand-in (all 256 bytes x lengths) is run natively and reported separately.",
        explanation="12 pack/unpack kernels, bits.unpack/bits.pack and the round-trip clients are verified against "
                    "bit-vector contracts for all byte values and all array lengths (loop invariants, symbolic length).",
    ),
}

NOT_APPLICABLE = {}
