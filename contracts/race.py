"""C19: one race contract per parallel kernel; parameters/preconditions/invariants come from the function contract."""
from pvc.contract import Contract

K = "sigpyproc/core/kernels.py::"
KERNELS = {
    "downsample_1d_mean_parallel": "downsample_1d_mean",
    "downsample_2d_mean_parallel": "downsample_2d_mean_flat",
    "extract_tim": None, "extract_bpass": None, "mask_channels": None, "dedisperse": None, "invert_freq": None,
    "subband": None, "remove_zerodm": None, "compute_online_moments": None, "compute_online_moments_basic": None,
}


def register(reg):
    for name, base in KERNELS.items():
        c = Contract("race:" + K + name, props=["C19"], kind="race")
        c.base = reg.get(K + (base or name))
        assert c.base is not None, name
        reg.add(c)
