"""C03: bits.unpack / bits.pack (dispatch, buffer handling, rejections) and the round-trip clients."""
from pvc.contract import Arr, Const, Contract, Int, LoopSpec, Raises, Str
from contracts.kernels_bits import pack_fields, unpack_fields

B = "sigpyproc/io/bits.py::"
CHAIN = ["C03", "C01", "C02", "C04"]


class OtherStr(Str):
    label = "other"


class BadNbits(Int):
    label = "other"


class U8(Arr):
    label = "uint8"


class F4(Arr):
    label = "float32"


def register(reg):
    for fn, buf in (("unpack", "unpacked"), ("pack", "packed")):
        sizeexpr = "len(array) * (8 // nbits)" if fn == "unpack" else "len(array) // (8 // nbits)"
        bad = (f"dtype_bad or nbits not in (1, 2, 4) or order_bad or "
               f"(not is_none({buf}) and len({buf}) != {sizeexpr})")
        if fn == "pack":
            # a sample count that is not a whole number of bytes cannot be packed without losing samples: refused
            bad += " or (nbits in (1, 2, 4) and len(array) % (8 // nbits) != 0)"
        c = Contract(B + fn, props=CHAIN, bv_u1=True,
                     params={"array": Arr("bv8", "u1"), "nbits": Int(), buf: Arr("bv8", "u1"), "bitorder": Str()},
                     cases={"array": [U8("bv8", "u1"), F4("real", "f4")],
                            "nbits": [1, 2, 4, BadNbits()],
                            buf: [None, U8("bv8", "u1")],
                            "bitorder": ["big", "little", OtherStr()]},
                     case_requires={("nbits", "other"): ["nbits not in (1, 2, 4)"],
                                    ("bitorder", "other"): ["len(bitorder) == 0 or (bitorder[0] != 'b' and bitorder[0] != 'l')"]},
                     lets={"dtype_bad": "array.dtype != np.uint8",
                           "order_bad": "len(bitorder) == 0 or (bitorder[0] != 'b' and bitorder[0] != 'l')"},
                     requires=[f"is_none({buf}) or distinct(array, {buf})"],
                     modifies=[buf],
                     raises=[Raises("ValueError", when=bad)],
                     ret=Arr("bv8", "u1"))
        for nb in (1, 2, 4):
            for order in ("big", "little"):
                if fn == "unpack":
                    body = unpack_fields(nb, order, "array", "result")
                    n = "len(array)"
                    c.ensure(f"len[{nb},{order}]", f"implies(nbits == {nb} and bitorder == '{order}', "
                                                   f"len(result) == {8 // nb}*len(array))")
                else:
                    body = pack_fields(nb, order, "array", "result")
                    n = "len(result)"
                    c.ensure(f"len[{nb},{order}]", f"implies(nbits == {nb} and bitorder == '{order}', "
                                                   f"len(result) == len(array) // {8 // nb})")
                c.ensure(f"fields[{nb},{order}]",
                         f"implies(nbits == {nb} and bitorder == '{order}', forall(i, 0, {n}, {body}))")
        c.ensure("buffer", f"is_none({buf}) or same_array(result, {buf})")
        reg.add(c)

    # round-trip clients (ghost code under /verif/specs/clients.py calling the real functions)
    CL = "verif:specs/clients.py::"
    c = Contract(CL + "roundtrip_bytes", props=["C03"],
                 params={"b": Arr("bv8", "u1"), "nbits": Int(), "bitorder": Str()},
                 cases={"nbits": [1, 2, 4], "bitorder": ["big", "little"]}, ret=Arr("bv8", "u1"))
    c.ensure("pack(unpack(b)) == b", "len(result) == len(b) and forall(i, 0, len(b), result[i] == b[i])")
    reg.add(c)
    c = Contract(CL + "roundtrip_samples", props=["C03"],
                 params={"v": Arr("bv8", "u1"), "nbits": Int(), "bitorder": Str(), },
                 cases={"nbits": [1, 2, 4], "bitorder": ["big", "little"]}, ret=Arr("bv8", "u1"),
                 lets={"f": "8 // nbits"},
                 # no precondition on the length: a trailing partial byte is refused by pack, never dropped silently
                 raises=[Raises("ValueError", when="len(v) % f != 0")])
    for nb in (1, 2, 4):
        f = 8 // nb
        c.case_requires[("nbits", str(nb))] = [f"forall(k, 0, len(v), bits(v[k], {nb}, {8 - nb}) == bv(0))"]
        body = " and ".join(f"result[{f}*i+{j}] == v[{f}*i+{j}]" for j in range(f))
        c.ensure(f"unpack(pack(v)) == v [{nb}]",
                 f"implies(nbits == {nb}, len(result) == len(v) and forall(i, 0, len(v) // {f}, {body}))")
    reg.add(c)
