"""C15 (the clause a contract can decide): z-scores never divide by a zero or undefined scale.

stats.estimate_zscore for 1-D data: the location and scale come from estimate_loc / estimate_scale (numpy medians,
percentiles, astropy biweight ...: external float code, ASSUMED to return one value - or, for 'doublemad', one value
per sample - about which nothing is known: it may be zero, tiny, or not finite).  Proved for every length >= 1, every
location / scale method (grouped by result shape) and every such value: the divisor actually used is 1 wherever the
estimate is within np.isclose of zero or not finite, and the estimate itself elsewhere; it is never zero and never
undefined; result.data[i] * divisor == data[i] - loc; shapes of data / loc / scale broadcast against the input.
Affine equivariance and axis consistency are statements about the numerics of the estimators: bounded driver only.
"""
from pvc.contract import Arr, Const, Contract, Int, Obj, Opaque, Raises, Real, Str

S = "sigpyproc/core/stats.py::"


def register(reg):
    c = Contract(S + "estimate_loc", props=["C15"], trusted=True,
                 trusted_reason="numpy mean/median (external float code): assumed to return one finite value for finite, "
                                "non-empty 1-D data (keepdims=True: an array of length 1)",
                 params={"data": Arr("real", "f4"), "method": Str(), "axis": Opaque(), "keepdims": Opaque()},
                 ret=Arr("real", "f8"), requires=["len(data) >= 1"])
    c.ensure("one value", "len(result) == 1 and isfin(result, 0)")
    reg.add(c)
    c = Contract(S + "estimate_scale", props=["C15"], trusted=True,
                 trusted_reason="robust scale estimators (numpy / astropy float code): assumed to return one value (one per "
                                "sample for 'doublemad'); nothing is assumed about it - it may be zero or not finite",
                 params={"data": Arr("real", "f4"), "method": Str(), "axis": Opaque(), "keepdims": Opaque()},
                 ret=Arr("real", "f8"), requires=["len(data) >= 1"])
    c.ensure("shape", "len(result) == (len(data) if method == 'doublemad' else 1)")
    reg.add(c)

    c = Contract(S + "estimate_zscore", props=["C15"],
                 params={"data": Arr("real", "f4"), "loc_method": Str(), "scale_method": Str(), "axis": Const(0)},
                 cases={"loc_method": ["median", "norm"], "scale_method": ["mad", "doublemad", "norm"]},
                 requires=["forall(j, 0, len(data), isfin(data, j))"],
                 raises=[Raises("ValueError", when="len(data) == 0")], ret=Opaque())
    c.ensure("shapes", "len(result.data) == len(data) and len(result.loc) == 1 and "
                       "(len(result.scale) == 1 or len(result.scale) == len(data))")
    c.ensure("divisor never zero or undefined", "forall(j, 0, len(result.scale), result.scale[j] != 0 and isfin(result.scale, j))")
    c.ensure("standardised", "forall(i, 0, len(data), result.data[i] * result.scale[0 if len(result.scale) == 1 else i] "
                             "== data[i] - result.loc[0])")
    c.ensure("finite", "forall(i, 0, len(data), isfin(result.data, i))")
    reg.add(c)
