"""C01: FilReader.read_plan as a generator contract over the byte-stream model of contracts/fileio.py.

Ghost per run: `goff` = offset (in samples, relative to `start`) of the block about to be yielded,
`_nyield` = number of blocks yielded so far.  At every yield (property clauses):
  count:    reported sample count * nchans == len(array); count <= effective gulp (<= gulp)
  index:    second component == number of blocks yielded before
  content:  array[j] == xs((start + goff) * nchans + j)   -- the unpacked samples of the stream
  overlap:  later blocks hold at least `skipback` samples (their leading `skipback` repeat the previous tail)
  in-range: goff + count <= nsamps
then goff := goff + count - skipback; at exhaustion goff + skipback == nsamps (every sample delivered once).
"""
from pvc.contract import Arr, Bool, Const, Contract, Int, LoopSpec, Obj, Opaque, Raises, Real
from contracts.fileio import F, NBITS, RI, SPOS, STREAM, TOTAL, reader_self

R = "sigpyproc/readers.py::"


def header_obj(nbits=None, extra=None):
    fields = {"nchans": Int(1), "nsamples": Int(0), "nbits": Const(nbits) if nbits is not None else Int()}
    fields.update(extra or {})
    return Obj("Header", file="sigpyproc/header.py", fields=fields)


def filreader_self(nbits=None):
    return Obj("FilReader", file="sigpyproc/readers.py",
               fields={"_header": header_obj(nbits), "_file": reader_self(nbits)})


FRI = RI.replace("self.", "self._file.")
FSPOS = SPOS.replace("self.", "self._file.")


def register(reg):
    # ---- allocate_buffer: assumed contract (try/except around a user-supplied allocator callback)
    c = Contract(F + "allocate_buffer", props=["C01"], trusted=True,
                 trusted_reason="try/except around a user allocator callback is outside the translated subset; "
                                "assumed: returns a fresh buffer of exactly nbytes bytes or raises",
                 params={"allocator": Opaque(), "nbytes": Int()}, ret=Arr("bv8", "u1"),
                 raises=[Raises("ValueError", when="nbytes <= 0")])
    c.ensure("size", "len(result) == nbytes")
    reg.add(c)

    # ---- FilReader.read_plan
    class NoneV(Const):
        label = "None"

    class IntV(Int):
        label = "int"
    c = Contract(R + "FilReader.read_plan", props=["C01"],
                 params={"self": filreader_self(), "gulp": Int(), "start": Int(), "nsamps": Int(), "skipback": Int(),
                         "description": Const(None), "quiet": Const(False), "allocator": Const(None)},
                 cases={"self._file.bitsinfo.nbits": NBITS, "nsamps": [NoneV(None), IntV()]},
                 ghost_params={"stride": Int(1)},
                 # one sample is a whole number of bytes: nchans*nbits == 8*stride, stated definitionally per depth
                 case_defs={("self._file.bitsinfo.nbits", "1"): [("self._header.nchans", "8 * stride")],
                            ("self._file.bitsinfo.nbits", "2"): [("self._header.nchans", "4 * stride")],
                            ("self._file.bitsinfo.nbits", "4"): [("self._header.nchans", "2 * stride")],
                            ("self._file.bitsinfo.nbits", "8"): [("stride", "self._header.nchans")],
                            ("self._file.bitsinfo.nbits", "16"): [("stride", "2 * self._header.nchans")],
                            ("self._file.bitsinfo.nbits", "32"): [("stride", "4 * self._header.nchans")]},
                 lets={"N": "self._header.nsamples - start if is_none(nsamps) else nsamps",
                       "S": "skipback if skipback >= 0 else -skipback",
                       "G": "(gulp if gulp <= N else N)", "nbits": "self._file.bitsinfo.nbits"},
                 requires=STREAM + [
                     FRI, "self._header.nbits == nbits",
                     "self._header.nchans * nbits == 8 * stride",       # one sample is a whole number of bytes
                     f"{TOTAL} == self._header.nsamples * stride",       # the stream holds whole samples only
                     # a range that runs past the end of the data is NOT excluded here: such a plan cannot be honoured and
                     # must be rejected before anything is yielded (raises clause below)
                     "gulp >= 1", "start >= 0", "N >= 1"],
                 modifies=["self._file.ifile_cur", "self._file.file_obj"],
                 ghost_init={"goff": "0", "_nyield": "0"},
                 yield_ghost={"goff": "goff + yielded[0] - S", "_nyield": "_nyield + 1"},
                 raises=[Raises("ValueError", when="S >= G or start + N > self._header.nsamples")])
    # rejected (before anything is yielded) exactly when skipback >= effective gulp or the range leaves the data; every
    # other plan is honoured
    c.yields = [
        ("count", "yielded[0] * self._header.nchans == len(yielded[2]) and 0 <= yielded[0] and yielded[0] <= G "
                  "and yielded[0] <= gulp", "P"),
        ("index", "yielded[1] == _nyield", "P"),
        ("in-range", "goff >= 0 and goff + yielded[0] <= N", "P"),
        ("overlap", "implies(_nyield >= 1, yielded[0] >= S)", "P"),
        # 8/16/32 bits: element j is sample (start+goff)*nchans + j of the stream
        ("content", "implies(nbits >= 8, forall(j, 0, len(yielded[2]), yielded[2][j] == "
                    "xs(nbits, self._file.bitsinfo.bitorder, (start + goff) * self._header.nchans + j)))", "P"),
    ]
    # 1/2/4 bits: sample f*b + jj is field jj of byte b (b = (start+goff)*stride + i: a sample is `stride` bytes)
    from contracts.kernels_bits import shift
    for nb in (1, 2, 4):
        f = 8 // nb
        for order in ("big", "little"):
            body = " and ".join(f"yielded[2][{f}*i+{jj}] == bits(Dbyte((start + goff) * stride + i), "
                                f"{shift(nb, order, jj)}, {nb})" for jj in range(f))
            c.yields.append((f"content[{nb},{order}]",
                             f"implies(nbits == {nb} and self._file.bitsinfo.bitorder == '{order}', "
                             f"{f} * (len(yielded[2]) // {f}) == len(yielded[2]) and "
                             f"forall(i, 0, len(yielded[2]) // {f}, {body}))", "P"))
    c.end = [("coverage", "goff + S == N", "P")]
    # plan arithmetic, established once where the values are computed (the later obligations then need no
    # non-linear reasoning): with (N - G) == q*(G - S) + r, 0 <= r < G - S:  nreads == q + 1 and lastread == r + S
    c.after_assign["nreads"] = [("at least one full block", "nreads >= 1 and nreads * (gulp - skipback) + skipback <= nsamps")]
    c.after_assign["lastread"] = [("remainder of the plan",
                                   "(skipback <= lastread and lastread < gulp and nreads * (gulp - skipback) + lastread == nsamps) or "
                                   "(lastread == 0 and nreads * (gulp - skipback) + skipback == nsamps)")]
    # helper clauses (H) the streaming consumers of base.py lean on (they index their output by ii*gulp)
    c.yields.append(("H:offset", "goff == _nyield * (G - S)", "H"))
    c.yields.append(("H:gulp", "implies(_nyield >= 1, G == old(gulp))", "H"))
    # consumer-side view (stmt.for_generator): the clauses above, restated over ghost functions boff/bn
    c.gen_spec = {"G": "G", "S": "S", "N": "N", "start": "start", "nchans": "self._header.nchans", "gulp": "gulp"}
    c.gen_requires = ["gulp >= 1", "start >= 0", "N >= 1", "start + N <= self._header.nsamples"]
    c.loops["0:ii_block_skip"] = LoopSpec([
        ("RI", FRI),
        ("ghost", "_nyield == _k0 and implies(_k0 < len(blocks), goff == _k0 * (gulp - skipback)) and "
                  "implies(_k0 == len(blocks), goff + skipback == nsamps)"),
        ("plan", "len(blocks) >= 1 and gulp == G and skipback == S and nsamps == N and S < G"),
        ("position", f"implies(_k0 < len(blocks), {FSPOS} == (start + goff) * stride)"),
        ("buffers", "len(read_buffer) == gulp * stride and "
                    "implies(nbits < 8, len(unpack_buffer) == gulp * self._header.nchans)"),
    ])
    reg.add(c)
