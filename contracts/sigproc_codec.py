"""C05: the key/value framing of the SIGPROC header codec (sigpyproc/io/sigproc.py) over a byte-string model.

encode_key(key[, value, type]) is proved to produce exactly
    packI(len(enc(key))) ++ enc(key)                                   (marker keys)
    packI(len(enc(key))) ++ enc(key) ++ packI(len(enc(value))) ++ enc(value)  (string values)
    packI(len(enc(key))) ++ enc(key) ++ pack<fmt>(value)                (numeric values, fmt in I, d, b)
_read_string(fp) is proved to return dec of the n bytes following the 4-byte length prefix at the current position
and to advance the position by exactly 4 + n.  The ghost clients compose them (modularly): reading back what
encode_key wrote returns the same key (and string value) and stops exactly at the end of the encoded key, whatever
follows -- the per-key step of "parse then re-encode reproduces the bytes" and "write then parse preserves the field".
Assumed: struct.pack/unpack mutually inverse on their ranges, fixed sizes 4/8/1; str.encode/bytes.decode mutually
inverse (no ASCII assumption: lengths are byte counts of the encoded text).  The loops of parse_header / encode_header over a dictionary with
mixed value types, the numeric field conversions of Header.from_sigproc / to_sigproc (astropy coordinates) and
edit_header's file handling are outside the subset: bounded driver only.
"""
from pvc.contract import Bytes, Const, Contract, Int, Obj, Raises, Real, Str

SP = "sigpyproc/io/sigproc.py::"
U32 = 4294967295


def binio():
    return Obj("BinaryIO", fields={"content": Bytes(), "pos": Int(0)})


def register(reg):
    class NoneV(Const):
        label = "None"

    class StrV(Str):
        label = "str"

    class IntV(Int):
        label = "int"

    class RealV(Real):
        label = "float"
    c = Contract(SP + "encode_key", props=["C05"],
                 params={"key": Str(), "value": Str(), "value_type": Str()},
                 cases={"value": [NoneV(None), StrV(), IntV(), RealV()], "value_type": ["str", "I", "d", "b"]},
                 skip_cases=["value=str,value_type=I", "value=str,value_type=d", "value=str,value_type=b",
                             "value=int,value_type=str", "value=float,value_type=str", "value=float,value_type=I",
                             "value=float,value_type=b", "value=int,value_type=d"],
                 requires=[f"len(enc(key)) <= {U32}"], ret=Bytes())
    c.case_requires[("value", "str")] = [f"len(enc(value)) <= {U32}"]
    c.case_requires[("value_type", "I")] = [f"implies(not is_none(value), 0 <= value and value <= {U32})"]
    c.case_requires[("value_type", "b")] = ["implies(not is_none(value), -128 <= value and value <= 127)"]
    head = "cat(packI(len(enc(key))), enc(key))"
    c.ensure("marker", f"implies(is_none(value), result == {head})")
    c.ensure("string value", "implies(not is_none(value) and value_type == 'str', "
                             f"result == cat(packI(len(enc(key))), enc(key), packI(len(enc(value))), enc(value)))")
    c.ensure("uint value", f"implies(not is_none(value) and value_type == 'I', result == cat(packI(len(enc(key))), enc(key), packI(value)))")
    c.ensure("double value", f"implies(not is_none(value) and value_type == 'd', result == cat(packI(len(enc(key))), enc(key), packD(value)))")
    c.ensure("byte value", f"implies(not is_none(value) and value_type == 'b', result == cat(packI(len(enc(key))), enc(key), packB(value)))")
    reg.add(c)

    c = Contract(SP + "_read_string", props=["C05"], params={"fp": binio()},
                 lets={"n": "unpackI(sub(fp.content, fp.pos, 4))"},
                 requires=["fp.pos + 4 <= len(fp.content)", "fp.pos + 4 + n <= len(fp.content)"],
                 modifies=["fp.pos"], ret=Str())
    c.ensure("string", "result == dec(sub(fp.content, old(fp.pos) + 4, old(n)))")
    c.ensure("position", "fp.pos == old(fp.pos) + 4 + old(n)")
    reg.add(c)

    CL = "verif:specs/clients.py::"
    c = Contract(CL + "header_key_roundtrip", props=["C05"], params={"key": Str(), "tail": Bytes()},
                 requires=[f"len(enc(key)) <= {U32}"])
    c.ensure("same key", "result[0] == key")
    c.ensure("stops at the end of the key", "result[1] == 4 + len(enc(key))")
    reg.add(c)
    c = Contract(CL + "header_strvalue_roundtrip", props=["C05"], params={"key": Str(), "value": Str(), "tail": Bytes()},
                 requires=[f"len(enc(key)) <= {U32}", f"len(enc(value)) <= {U32}"])
    c.ensure("same key and value", "result[0] == key and result[1] == value")
    c.ensure("stops at the end of the value", "result[2] == 8 + len(enc(key)) + len(enc(value))")
    reg.add(c)
