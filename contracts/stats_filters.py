"""C14: running filters and decimation entry points of sigpyproc/core/stats.py.

running_filter(array, window, method): the library pads symmetrically, applies bottleneck's moving window and drops
the warm-up.  Assumed (A-NP): np.pad(a, (l, r), "symmetric")[j] == a[sym(j - l)] (sym = symmetric reflection, period
2n) with length n + l + r; bn.move_mean/move_median(p, w)[k] == movef(kind, p, k - w + 1, w) for k >= w - 1 -- the mean /
median of the w elements of p starting at k - w + 1 (uninterpreted).  Proved for EVERY length n >= 1 and every width
w >= 1, including w > n:  len(result) == n and result[i] == movef(method, sympad(array, w // 2), i, w), i.e. the
statistic of the w-wide window starting w//2 samples before sample i of the reflected series -- the centred window
(for even w, one more sample before than after).
downsample_1d: validation, and dispatch to the proved kernel (mean).
"""
from pvc.contract import Arr, Const, Contract, Int, LoopSpec, Raises, Str

S = "sigpyproc/core/stats.py::"


def register(reg):
    c = Contract(S + "running_filter", props=["C14"],
                 params={"array": Arr("real", "f4"), "window": Int(), "method": Str()},
                 cases={"method": ["mean", "median"]},
                 requires=["len(array) >= 1", "window >= 1"], ret=Arr("real", "f4"))
    c.ensure("same length", "len(result) == len(array)")
    c.ensure("centred window", "forall(i, 0, len(array), result[i] == movef(method, sympad(array, window // 2), i, window))")
    reg.add(c)

    # ---- downsample_1d (mean): validation + the proved kernel; the incomplete remainder is dropped
    c = Contract(S + "downsample_1d", props=["C14"],
                 params={"array": Arr("real", "f4"), "factor": Int(), "method": Str()},
                 cases={"method": ["mean", "median"]}, ret=Arr("real", "f4"),
                 raises=[Raises("ValueError", when="factor <= 0 or factor > len(array)")])
    c.ensure("groups", "len(result) == len(array) // factor")
    c.ensure("mean of each full group", "implies(method == 'mean', forall(i, 0, len(array) // factor, result[i] == "
                                        "ssum(arr(array), off(array) + factor * i, 1, factor) / factor))")
    # np.median is assumed: med1(contents, first element, count) - what is decided is WHICH elements each output covers
    c.ensure("median of each full group", "implies(method == 'median', forall(i, 0, len(array) // factor, result[i] == "
                                          "med1(arr(array), off(array) + factor * i, factor)))")
    reg.add(c)

    # ---- downsample_2d_flat (mean): validation + the proved kernel
    c = Contract(S + "downsample_2d_flat", props=["C14"],
                 params={"array": Arr("real", "f4"), "factor1": Int(), "factor2": Int(), "dim1": Int(), "dim2": Int(),
                         "method": Str()},
                 cases={"method": ["mean"]}, ret=Arr("real", "f4"), requires=["dim1 >= 0", "dim2 >= 0"],
                 raises=[Raises("ValueError", when="factor1 <= 0 or factor2 <= 0 or len(array) != dim1 * dim2")])
    nd2 = "(dim2 // factor2)"
    cell = ("result[" + nd2 + " * a + b] == ssum2(arr(array), off(array) + dim2 * factor1 * a + factor2 * b, dim2, "
            "factor2, factor1) / (factor1 * factor2)")
    c.ensure("tiles", "len(result) == (dim1 // factor1) * (dim2 // factor2)")
    c.ensure("mean of each full tile", "forall(a, 0, dim1 // factor1, forall(b, 0, " + nd2 + ", " + cell + "))")
    reg.add(c)


def register_deredden(reg):
    """TimeSeries.deredden (exact path): the input minus its running filter of the requested method and width."""
    from pvc.contract import Obj, Real, Const
    TS = "sigpyproc/timeseries.py::"
    hdr = Obj("Header", file="sigpyproc/header.py", fields={"nsamples": Int(0), "nchans": Int(1), "tsamp": Real()})
    ts = Obj("TimeSeries", file="sigpyproc/timeseries.py", fields={"_data": Arr("real", "f4"), "_header": hdr})
    c = Contract(TS + "TimeSeries.deredden", props=["C14"],
                 params={"self": ts, "method": Str(), "window": Real(), "fast": Const(False)},
                 cases={"method": ["mean", "median"]},
                 ghost_params={"wb": Int(1)},
                 requires=["len(self._data) == self._header.nsamples", "self._header.nsamples >= 1", "self._header.tsamp > 0",
                           # the window in bins: the library rounds window / tsamp to the nearest integer
                           "window >= 0", "wb >= 1", "wb - 0.5 < window / self._header.tsamp and window / self._header.tsamp < wb + 0.5"],
                 raises=[Raises("ValueError", when="window < 0")], ret=ts)
    c.ensure("length", "len(result._data) == len(self._data)")
    c.ensure("input minus its running filter", "forall(i, 0, len(self._data), result._data[i] == self._data[i] - "
                                               "movef(method, sympad(self._data, wb // 2), i, wb))")
    reg.add(c)


_r_sf = register


def register(reg):  # noqa: F811
    _r_sf(reg)
    register_deredden(reg)


def register_block_downsample(reg):
    """FilterbankBlock.downsample: decimation by the REQUESTED method with the header describing the result.
    stats.downsample_2d (np.mean / np.median over a reshaped 4-D view) is assumed: tile (a, b) of the result is
    ds2(method, data, f1, f2, a, b), a deterministic function of the method name, the block and the tile."""
    from pvc.contract import Arr2, Obj, Real, Tup
    BL = "sigpyproc/block.py::"
    ST = "sigpyproc/core/stats.py::"
    c = Contract(ST + "downsample_2d", props=["C14"], trusted=True,
                 trusted_reason="np.mean / np.median over a reshaped 4-D view (outside the subset; compared with per-tile "
                                "float64 means/medians by the bounded driver)",
                 params={"array": Arr2("real", "f4"), "factors": Tup([Int(1), Int(1)]), "method": Str()},
                 requires=["factors[0] >= 1 and factors[1] >= 1"],
                 raises=[Raises("ValueError", when="method != 'mean' and method != 'median'")], ret=Arr2("real", "f4"))
    c.ensure("tiles", "result.shape[0] == array.shape[0] // factors[0] and result.shape[1] == array.shape[1] // factors[1]")
    c.ensure("values", "forall(a, 0, array.shape[0] // factors[0], forall(b, 0, array.shape[1] // factors[1], "
                       "result[a, b] == ds2(method, arr(array), array.shape[1], factors[0], factors[1], a, b)))")
    reg.add(c)
    hdr = Obj("Header", file="sigpyproc/header.py",
              fields={"nsamples": Int(0), "nchans": Int(1), "tsamp": Real(), "foff": Real(), "fch1": Real(), "tstart": Real(),
                      "nbits": Int(), "dm": Real()})
    blk = Obj("FilterbankBlock", file="sigpyproc/block.py", fields={"_data": Arr2("real", "f4"), "_header": hdr, "_dm": Real()})
    c = Contract(BL + "FilterbankBlock.downsample", props=["C14", "C08"],
                 params={"self": blk, "ffactor": Int(1), "tfactor": Int(1), "filter_method": Str()},
                 cases={"filter_method": ["mean", "median"]},
                 requires=["self._data.shape[0] == self._header.nchans and self._data.shape[1] == self._header.nsamples"],
                 ret=blk)
    c.ensure("tiles of the requested method",
             "forall(a, 0, self._header.nchans // ffactor, forall(b, 0, self._header.nsamples // tfactor, "
             "result._data[a, b] == ds2(filter_method, arr(self._data), self._data.shape[1], ffactor, tfactor, a, b)))")
    c.ensure("header describes the result",
             "result._header.nchans == self._header.nchans // ffactor and result._header.nsamples == self._header.nsamples // tfactor "
             "and result._header.tsamp == self._header.tsamp * tfactor and result._header.foff == self._header.foff * ffactor "
             "and result._data.shape[0] == result._header.nchans and result._data.shape[1] == result._header.nsamples")
    # C08: dm records the DM that was applied - decimating a dedispersed block does not forget it
    c.ensure("applied DM kept", "result._dm == self._dm")
    reg.add(c)


_r_sf2 = register


def register(reg):  # noqa: F811
    _r_sf2(reg)
    register_block_downsample(reg)


def register_ts_downsample(reg):
    """TimeSeries.downsample: groups of the REQUESTED method, header describing the result (C14, C08)."""
    from pvc.contract import Obj, Real
    TS = "sigpyproc/timeseries.py::"
    hdr = Obj("Header", file="sigpyproc/header.py",
              fields={"nsamples": Int(0), "nchans": Int(1), "tsamp": Real(), "foff": Real(), "fch1": Real(), "tstart": Real(),
                      "nbits": Int(), "dm": Real()})
    ts = Obj("TimeSeries", file="sigpyproc/timeseries.py", fields={"_data": Arr("real", "f4"), "_header": hdr})
    c = Contract(TS + "TimeSeries.downsample", props=["C14", "C08"],
                 params={"self": ts, "factor": Int(), "filter_method": Str()},
                 cases={"filter_method": ["mean", "median"]},
                 requires=["len(self._data) == self._header.nsamples", "factor >= 2"],
                 raises=[Raises("ValueError", when="factor > len(self._data)")], ret=ts)
    c.ensure("groups", "len(result._data) == len(self._data) // factor")
    c.ensure("mean groups", "implies(filter_method == 'mean', forall(i, 0, len(self._data) // factor, result._data[i] == "
                            "ssum(arr(self._data), off(self._data) + factor * i, 1, factor) / factor))")
    c.ensure("median groups", "implies(filter_method == 'median', forall(i, 0, len(self._data) // factor, result._data[i] == "
                              "med1(arr(self._data), off(self._data) + factor * i, factor)))")
    c.ensure("header describes the result", "result._header.nsamples == len(self._data) // factor and "
                                            "result._header.tsamp == self._header.tsamp * factor")
    reg.add(c)


_r_sf3 = register


def register(reg):  # noqa: F811
    _r_sf3(reg)
    register_ts_downsample(reg)
