"""C10: online moments. The accumulator state after any chunking equals cm(n, S1..S4): the central-moment sums written
as rational functions of the power sums of the stream, so it cannot depend on how the stream was partitioned."""
from pvc.contract import Arr, Bool, Const, Contract, Int, LoopSpec, Obj, Opaque, Raises, Real, RecArr

K = "sigpyproc/core/kernels.py::"


def cm(n, p1, p2, p3, p4, m1, m2, m3, m4):
    """Relation `(m1..m4) are the central-moment sums of a stream with count n and power sums p1..p4`."""
    return (f"(({n} == 0 and {m1} == 0 and {m2} == 0 and {m3} == 0 and {m4} == 0 and {p1} == 0 and {p2} == 0 and {p3} == 0 "
            f"and {p4} == 0) or ({n} >= 1 and {m1} * {n} == {p1} and {m2} * {n} == {p2} * {n} - {p1} * {p1} and "
            f"{m3} * {n} * {n} == {p3} * {n} * {n} - 3 * {p1} * {p2} * {n} + 2 * {p1} * {p1} * {p1} and "
            f"{m4} * {n} * {n} * {n} == {p4} * {n} * {n} * {n} - 4 * {p1} * {p3} * {n} * {n} + 6 * {p1} * {p1} * {p2} * {n} "
            f"- 3 * {p1} * {p1} * {p1} * {p1}))")


def register(reg):
    c = Contract(K + "update_moments", props=["C10"],
                 params={"val": Real(), "m1": Real(), "m2": Real(), "m3": Real(), "m4": Real(), "n": Int(0)},
                 ghost_params={"P1": Real(), "P2": Real(), "P3": Real(), "P4": Real()},
                 requires=[cm("n", "P1", "P2", "P3", "P4", "m1", "m2", "m3", "m4")], ret=Opaque())
    c.ensure("count", "result[4] == old(n) + 1")
    c.ensure("moments", cm("(old(n) + 1)", "(P1 + val)", "(P2 + val * val)", "(P3 + val * val * val)", "(P4 + val * val * val * val)",
                           "result[0]", "result[1]", "result[2]", "result[3]"))
    reg.add(c)
    c = Contract(K + "update_moments_basic", props=["C10"],
                 params={"val": Real(), "m1": Real(), "m2": Real(), "n": Int(0)},
                 ghost_params={"P1": Real(), "P2": Real()},
                 requires=["(n == 0 and m1 == 0 and m2 == 0 and P1 == 0 and P2 == 0) or "
                           "(n >= 1 and m1 * n == P1 and m2 * n == P2 * n - P1 * P1)"], ret=Opaque())
    c.ensure("count", "result[2] == old(n) + 1")
    c.ensure("moments", "result[0] * (old(n) + 1) == P1 + val and "
                        "result[1] * (old(n) + 1) == (P2 + val * val) * (old(n) + 1) - (P1 + val) * (P1 + val)")
    reg.add(c)


# ---------------------------------------------------------------------------------------- sympy back end for order 4
def _poly_lemma(reg, fname, order):
    """update_moments against cm(n+1, S+val^k): symbolic execution of the real body, identity by normal form."""
    import z3
    from pvc.contract import Contract
    from pvc.state import Obligation, State
    from pvc.source import _strip_doc
    key = f"poly:{K}{fname}"
    c = Contract(key, props=["C10"], kind="lemma")

    def build(v):
        import sympy as sp
        from pvc.poly import is_zero, to_sympy
        from pvc.values import VInt, VReal
        from pvc import smt
        fi = v.src.func(K + fname)
        v.fi, v.mod, v.contract = fi, v.src.module(fi.file), None
        v.cur_func, v.cur_case, v.obls = key, "", []
        obls = []
        names = [a.arg for a in fi.node.args.args]
        for branch in ("n>=1", "n==0"):
            st = State()
            syms = {}
            n = z3.Int("n")
            P = [z3.Real(f"P{i}") for i in range(1, 5)]
            val = z3.Real("val")
            nr = z3.ToReal(n)
            if branch == "n>=1":
                m = [P[0] / nr, P[1] - P[0] * P[0] / nr,
                     P[2] - 3 * P[0] * P[1] / nr + 2 * P[0] ** 3 / (nr * nr),
                     P[3] - 4 * P[0] * P[2] / nr + 6 * P[0] * P[0] * P[1] / (nr * nr) - 3 * P[0] ** 4 / (nr ** 3)]
                nn = n
            else:
                m = [z3.RealVal(0)] * 4
                P = [z3.RealVal(0)] * 4
                nn = z3.IntVal(0)
            env = {"val": VReal(val), "n": VInt(nn)}
            for i in range(order):
                env[f"m{i + 1}"] = VReal(m[i])
            st.env = {k: env[k] for k in names}
            st.assume(nn >= 0)
            paths = v.exec_block(_strip_doc(fi.node.body), st)
            rets = [oc.value for _s, oc in paths if oc.kind == "return"]
            assert len(rets) == 1
            res = rets[0].items
            N1 = sp.Symbol("n") + 1 if branch == "n>=1" else sp.Integer(1)
            Ps = [to_sympy(P[i], syms) + to_sympy(val, syms) ** (i + 1) for i in range(4)]
            want = [Ps[0] / N1, Ps[1] - Ps[0] ** 2 / N1, Ps[2] - 3 * Ps[0] * Ps[1] / N1 + 2 * Ps[0] ** 3 / N1 ** 2,
                    Ps[3] - 4 * Ps[0] * Ps[2] / N1 + 6 * Ps[0] ** 2 * Ps[1] / N1 ** 2 - 3 * Ps[0] ** 4 / N1 ** 3]
            for i in range(order):
                got = to_sympy(res[i].t, syms)
                ok = is_zero(got - want[i])
                obls.append(Obligation(f"{key}/identity:m{i + 1}[{branch}]", "poly-identity", [], z3.BoolVal(bool(ok)), key,
                                       fi.node.lineno, "P", f"m{i + 1}", extra={"backend": "sympy normal form"}))
            cnt = to_sympy(v.to_int(res[order]), syms)
            obls.append(Obligation(f"{key}/identity:count[{branch}]", "poly-identity", [], z3.BoolVal(bool(sp.expand(cnt - N1) == 0)),
                                   key, fi.node.lineno, "P", "count", extra={"backend": "sympy normal form"}))
        return obls, ("ok", "")
    c.build = build
    reg.add(c)


_orig_register = register


def register(reg):  # noqa: F811
    _orig_register(reg)
    # the order-4 identities (degree 8 rational functions) leave z3's non-linear core undecided: sympy decides them
    reg.by_key.pop(K + "update_moments")
    _poly_lemma(reg, "update_moments", 4)
    _poly_lemma(reg, "update_moments_basic", 2)


def _merge_lemma(reg):
    """add_online_moments(a, b, c): c == cm of the union, element-wise (symbolic execution of the real body on
    structured arrays, then the rational identities by sympy normal form)."""
    import z3
    from pvc.contract import Contract, RecArr
    from pvc.state import Obligation, State
    from pvc.source import _strip_doc
    from contracts.kernels_moments import MOM
    key = f"poly:{K}add_online_moments"
    c = Contract(key, props=["C10"], kind="lemma")

    def build(v):
        import sympy as sp
        from pvc.poly import is_zero, to_sympy
        from pvc import smt
        fi = v.src.func(K + "add_online_moments")
        v.fi, v.mod, v.contract = fi, v.src.module(fi.file), None
        v.cur_func, v.cur_case, v.obls = key, "", []
        v._param_names_used = set()
        st = State()
        env = {p: v.mk_param(p, RecArr(dict(MOM)), st) for p in ("a", "b", "c")}
        n = env["a"].n
        st.assume(z3.And(env["b"].n == n, env["c"].n == n))
        st.env = dict(env)
        paths = v.exec_block(_strip_doc(fi.node.body), st)
        assert len(paths) == 1
        s2 = paths[0][0]
        j = z3.Int("j")

        def fld(rec, f, state):
            a_ = rec.fields[f]
            return z3.simplify(z3.Select(state.heap[a_.obj], j))
        syms = {}
        # ghost power sums of the two parts; fields of a and b are their central-moment sums
        na, nb = sp.Symbol("na", positive=True), sp.Symbol("nb", positive=True)
        A = sp.symbols("A1:5")
        Bs = sp.symbols("B1:5")

        def cms(nn, P):
            return [P[0] / nn, P[1] - P[0] ** 2 / nn, P[2] - 3 * P[0] * P[1] / nn + 2 * P[0] ** 3 / nn ** 2,
                    P[3] - 4 * P[0] * P[2] / nn + 6 * P[0] ** 2 * P[1] / nn ** 2 - 3 * P[0] ** 4 / nn ** 3]
        sub = {}
        for rec, nn, P in ((env["a"], na, A), (env["b"], nb, Bs)):
            vals = cms(nn, P)
            sub[to_sympy(fld(rec, "count", st), syms)] = nn
            for i, f in enumerate(("m1", "m2", "m3", "m4")):
                sub[to_sympy(fld(rec, f, st), syms)] = vals[i]
        want = cms(na + nb, [A[i] + Bs[i] for i in range(4)])
        obls = []
        for i, f in enumerate(("m1", "m2", "m3", "m4")):
            got = to_sympy(fld(env["c"], f, s2), syms).subs(sub)
            ok = is_zero(got - want[i])
            obls.append(Obligation(f"{key}/identity:{f}", "poly-identity", [], z3.BoolVal(bool(ok)), key, fi.node.lineno, "P", f,
                                   extra={"backend": "sympy normal form"}))
        gotc = to_sympy(fld(env["c"], "count", s2), syms).subs(sub)
        obls.append(Obligation(f"{key}/identity:count", "poly-identity", [], z3.BoolVal(bool(sp.expand(gotc - na - nb) == 0)), key,
                               fi.node.lineno, "P", "count", extra={"backend": "sympy normal form"}))
        # extrema of the union: element-wise the larger maximum / the smaller minimum of the two parts (z3, on the
        # terms stored by the real body; j is an arbitrary in-range element)
        rng = [j >= 0, j < n]
        for f, ge in (("max", True), ("min", False)):
            ca, cb, cc = fld(env["a"], f, st), fld(env["b"], f, st), fld(env["c"], f, s2)
            goal = z3.And(cc >= ca, cc >= cb, z3.Or(cc == ca, cc == cb)) if ge else \
                z3.And(cc <= ca, cc <= cb, z3.Or(cc == ca, cc == cb))
            obls.append(Obligation(f"{key}/union:{f}", "post", list(s2.pc) + rng, goal, key, fi.node.lineno, "P", f))
        return obls, ("ok", "")
    c.build = build
    reg.add(c)


_reg2 = register


def register(reg):  # noqa: F811
    _reg2(reg)
    _merge_lemma(reg)
