"""Lemmas about the sum specs, proved by induction (recursive ghost functions in specs/clients.py)."""
from pvc.contract import Contract, Int, Raw

CL = "verif:specs/clients.py::"


def register(reg):
    c = Contract(CL + "lemma_rsum", props=["C06", "C07"], params={"A": Raw("real"), "nc": Int(), "T": Int(), "n": Int()},
                 requires=["n >= 0"], decreases="n")
    c.ensure("rsum", "ssum(A, nc * T, 1, n) == rsum(A, nc, T, n)")
    reg.add(c)
    c = Contract(CL + "lemma_colsum_split", props=["C06", "C07"],
                 params={"A": Raw("real"), "nc": Int(), "c": Int(), "T0": Int(), "n": Int(), "m": Int()},
                 requires=["n >= 0", "m >= 0"], decreases="m")
    c.ensure("split", "colsum(A, nc, c, T0, n + m) == colsum(A, nc, c, T0, n) + colsum(A, nc, c, T0 + n, m)")
    reg.add(c)

    for kind in ("int",):
        c = Contract(CL + "lemma_store_below", props=["C11"],
                     params={"A": Raw(kind), "i": Int(), "v": Int(), "n": Int()},
                     requires=["0 <= n and n <= i"], decreases="n")
        c.ensure("below", "ssum(upd(A, i, v), 0, 1, n) == ssum(A, 0, 1, n)")
        reg.add(c)
        c = Contract(CL + "lemma_store_sum", props=["C11"],
                     params={"A": Raw(kind), "i": Int(), "v": Int(), "n": Int()},
                     requires=["0 <= i and i < n"], decreases="n")
        c.ensure("sum", "ssum(upd(A, i, v), 0, 1, n) == ssum(A, 0, 1, n) - at(A, i) + v")
        reg.add(c)

    c = Contract(CL + "lemma_zero_sum", props=["C11"], params={"A": Raw("int"), "n": Int()},
                 requires=["n >= 0", "forall(k, 0, n, at(A, k) == 0)"], decreases="n")
    c.ensure("zero", "ssum(A, 0, 1, n) == 0")
    reg.add(c)
