"""C09: Header.get_dmdelays hands the dispersion law the right reference frequency.

params.compute_dmdelays (float32 numpy broadcasting, rounding) is ASSUMED to return DDF(dm, tsamp, ref_freq, j) for
channel j (its numerical law is compared with the float64 formula by the bounded driver).  Proved here for every
header: the reference frequency passed is the first channel's centre for "ch1", the largest / smallest channel centre
for "max" / "min", the band centre for "center", the number itself for a numeric reference; the sampling time passed is
the header's; any other string raises ValueError.  Hence "zero delay at the reference frequency" reduces to the assumed
law at f == f_ref.
"""
from pvc.contract import Arr, Const, Contract, Int, Obj, Raises, Real, Str

H = "sigpyproc/header.py::"


def register(reg):
    hdr = Obj("Header", file="sigpyproc/header.py", fields={"nchans": Int(1), "foff": Real(), "fch1": Real(), "tsamp": Real()})

    class RealV(Real):
        label = "number"

    class StrV(Str):
        label = "name"
    c = Contract(H + "Header.get_dmdelays#law", props=["C09"],
                 params={"self": hdr, "dm": Real(), "ref_freq": Str(), "in_samples": Const(True)},
                 cases={"ref_freq": ["ch1", "max", "min", "center", RealV(), StrV()]},
                 lets={"last": "self.fch1 + (self.nchans - 1) * self.foff",
                       "fref": "(self.fch1 if ref_freq == 'ch1' else "
                               "((self.fch1 if self.fch1 >= last else last) if ref_freq == 'max' else "
                               "((self.fch1 if self.fch1 <= last else last) if ref_freq == 'min' else "
                               "(self.fch1 - 0.5 * self.foff + 0.5 * self.foff * self.nchans))))"},
                 case_requires={("ref_freq", "name"): ["ref_freq != 'ch1' and ref_freq != 'max' and ref_freq != 'min' and ref_freq != 'center'"]},
                 raises=[Raises("ValueError", when="not is_real(ref_freq) and ref_freq != 'ch1' and ref_freq != 'max' and "
                                                    "ref_freq != 'min' and ref_freq != 'center'")],
                 ret=Arr("int", "i4"))
    c.ensure("one delay per channel", "len(result) == self.nchans")
    c.ensure("law at the chosen reference", "forall(j, 0, self.nchans, result[j] == "
                                            "DDF(dm, self.tsamp, (ref_freq if is_real(ref_freq) else fref), j))")
    reg.add(c)
