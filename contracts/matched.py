"""C13 (the part a contract can decide): the array bookkeeping of the matched filter.

kernels.convolve_templates pads the standardised series circularly to a good FFT size, and for each template pads,
aligns, reverses and normalises the kernel, multiplies the spectra and transforms back.  What numpy's FFT computes is
external float code (assumed; the responses are compared numerically with direct inner products by the bounded
driver).  Decided here for every series length, bank size and template length <= series length:
  * circular_pad_goodsize: result[i] == arr[i mod n] for i < GOOD(n), every index in bounds;
  * normalize_template: same length, element-wise (arr[i] - mean) / norm (or arr[i] - mean when the norm is 0);
  * convolve_templates: never raises - every slice assignment has matching lengths, the template fits the padded
    buffer, the inverse transform has the length of the forward transform (an inverse of a different length is not
    the inverse: it silently changes every response, and one sample short it cannot fill the output row), the
    result is (number of templates) x (series length).
"""
from pvc.contract import Arr, Arr2, Contract, Int, LoopSpec, SeqOf

K = "sigpyproc/core/kernels.py::"


def register(reg):
    c = Contract(K + "circular_pad_goodsize", props=["C13"], params={"arr": Arr("real", "f4")},
                 requires=["len(arr) >= 1"], ret=Arr("real", "f4"))
    c.loops["0:i"] = LoopSpec([("copied", "forall(k, 0, i, result[k] == arr[k % len(arr)])"),
                               ("shape", "len(result) == GOOD(len(arr)) and n_good == GOOD(len(arr)) and n == len(arr) "
                                         "and distinct(result, arr)")])
    c.ensure("length", "len(result) == GOOD(len(arr)) and GOOD(len(arr)) >= len(arr)")
    c.ensure("periodic extension", "forall(k, 0, GOOD(len(arr)), result[k] == arr[k % len(arr)])")
    reg.add(c)

    c = Contract(K + "normalize_template", props=["C13"], params={"arr": Arr("real", "f4")},
                 requires=["len(arr) >= 1"], ret=Arr("real", "f4"))
    c.ensure("length", "len(result) == len(arr)")
    reg.add(c)

    c = Contract(K + "convolve_templates", props=["C13"],
                 params={"data": Arr("real", "f4"), "temp_bank": SeqOf(Arr("real", "f4")), "ref_bin": SeqOf(Int())},
                 requires=["len(data) >= 1", "len(ref_bin) == len(temp_bank)",
                           "forall(k, 0, len(temp_bank), len(temp_bank[k]) >= 1 and len(temp_bank[k]) <= len(data))"],
                 ret=Arr2("real", "f4"))
    c.loops["0:itemp"] = LoopSpec([
        ("shape", "convs.shape[0] == ntemps and convs.shape[1] == nbins and nbins == len(data) and ntemps == len(temp_bank) "
                  "and len(data_pad) == GOOD(len(data)) and GOOD(len(data)) >= len(data) and "
                  "len(data_fft) == GOOD(len(data)) // 2 + 1 and "
                  "distinct(convs, data_pad, data_fft, data)")])
    c.ensure("one row per template", "result.shape[0] == len(temp_bank) and result.shape[1] == len(data)")
    reg.add(c)
