"""C04 / C20: the writer side, verified at the byte level on the real bodies.

FileWriter.cwrite#bytes  -- sample-width conformance: what is appended is arr.size * nbits / 8 bytes (packed fields
                            for 1/2/4 bits, the declared sample type for 8/16/32 bits) or the call raises.
Header.prep_outfile#body -- the file is created in mode "w+", the complete header is written exactly once before the
                            writer is returned, nothing else has been written, no repositioning.
The sample-level call-site view used by the streaming writers (pvc/wrmodel.py) is derived from these two and C03.
"""
from pvc.contract import Arr, Bool, Chunks, Const, Contract, Int, LoopSpec, Obj, Opaque, Raises, Real, Str
from pvc.values import VDict
from contracts.kernels_bits import pack_fields
from contracts.readers import header_obj

F = "sigpyproc/io/fileio.py::"
H = "sigpyproc/header.py::"
S = "sigpyproc/io/sigproc.py::"


def outfile_obj():
    return Obj("OutFile", fields={"mode": Const("w+"), "nbytes": Int(0), "hdr_writes": Int(0), "hdr_after_data": Bool(),
                                  "seeks": Int(0), "closed": Const(False), "elems": Chunks("real"), "ebits": Int(),
                                  "last_dtype": Str()})


def writer_self(nbits=None):
    return Obj("FileWriter", file="sigpyproc/io/fileio.py", fields={
        "bitsinfo": Obj("BitsInfo", file="sigpyproc/io/bits.py",
                        fields={"nbits": Const(nbits) if nbits is not None else Int(), "digi_sigma": Real()}),
        "rescale": Const(False), "file_obj": outfile_obj(), "ifile_cur": Const(0)})


class A(Arr):
    def __init__(self, kind, dtype):
        super().__init__(kind, dtype)
        self.label = dtype


def register(reg):
    c = Contract(F + "FileWriter.cwrite#bytes", props=["C04", "C20", "C07"],
                 params={"self": writer_self(), "arr": Arr("real", "f4")},
                 cases={"self.bitsinfo.nbits": [1, 2, 4, 8, 16, 32],
                        "arr": [A("bv8", "u1"), A("real", "u2"), A("real", "f4"), A("real", "f8"), A("int", "i8"), A("int", "i4")]},
                 lets={"nbits": "self.bitsinfo.nbits", "n0": "self.file_obj.nbytes"},
                 requires=["self.file_obj.ebits == 0 or self.file_obj.ebits == (8 if nbits < 8 else nbits)"],
                 modifies=["self.file_obj"],
                 raises=[Raises("ValueError", when="nbits < 8 and arr.dtype != np.uint8",
                                post=[("nothing written", "self.file_obj.nbytes == old(self.file_obj.nbytes)")])])
    # never another width than the header declares
    c.ensure("width", "self.file_obj.nbytes == n0 + ((len(arr) // (8 // nbits)) if nbits < 8 else len(arr) * (nbits // 8))")
    c.ensure("element size", "self.file_obj.ebits == (8 if nbits < 8 else nbits)")
    # ... and of the declared sample TYPE: an array of the same width but another kind (int32 into a float32 file) is converted
    c.ensure("element type", "self.file_obj.last_dtype == ('u1' if nbits <= 8 else ('u2' if nbits == 16 else 'f4'))")
    c.ensure("append-only", "self.file_obj.seeks == old(self.file_obj.seeks) and "
                            "self.file_obj.hdr_writes == old(self.file_obj.hdr_writes) and "
                            "len(self.file_obj.elems) >= old(len(self.file_obj.elems)) and "
                            "forall(k, 0, old(len(self.file_obj.elems)), self.file_obj.elems[k] == old(self.file_obj.elems[k]))")
    c.ensure("count", "len(self.file_obj.elems) == old(len(self.file_obj.elems)) + "
                      "((len(arr) // (8 // nbits)) if nbits < 8 else len(arr))")
    reg.add(c)

    # ---- to_sigproc / encode_header: header bytes (C05) are opaque here
    c = Contract(H + "Header.to_sigproc", props=["C04", "C20"], trusted=True,
                 trusted_reason="header field mapping and byte encoding are the subject of C05; here the bytes are opaque",
                 params={"self": header_obj()}, ret=Opaque())
    reg.add(c)
    c = Contract(S + "encode_header", props=["C04", "C20"], trusted=True,
                 trusted_reason="C05: returns the complete SIGPROC header bytes (HEADER_START .. HEADER_END)",
                 params={"header": Opaque()}, ret=Opaque())
    reg.add(c)

    # ---- prep_outfile (body): typestate of the freshly prepared file
    class NoneV(Const):
        label = "None"

    class IntV(Int):
        label = "int"

    class EmptyDict(Const):
        label = "dict"
    c = Contract(H + "Header.prep_outfile#body", props=["C04", "C20", "C07", "C08"],
                 params={"self": header_obj(None, {"tsamp": Real()}), "filename": Opaque(), "updates": Const(None),
                         "nbits": Int(), "rescale": Const(False)},
                 cases={"updates": [NoneV(None), EmptyDict(VDict({}))], "nbits": [NoneV(None), IntV()]},
                 case_requires={("nbits", "int"): ["nbits in (1, 2, 4, 8, 16, 32)"]},
                 requires=["self.nbits in (1, 2, 4, 8, 16, 32)"],
                 inline_calls=[F + "FileBase._open"],
                 ret=Opaque())
    # the header that is encoded declares the depth the writer packs at (C08: nbits equals the on-disk depth)
    c.after_assign["new_hdr"] = [("header declares the written depth", "new_hdr.nbits == nbits")]
    c.ensure("depth", "result.bitsinfo.nbits == (self.nbits if is_none(nbits) else nbits)")
    c.ensure("header once, first", "result.file_obj.hdr_writes == 1 and not result.file_obj.hdr_after_data and "
                                   "result.file_obj.nbytes == 0 and len(result.file_obj.elems) == 0")
    c.ensure("append mode", "result.file_obj.mode == 'w+' and result.file_obj.seeks == 0 and not result.file_obj.closed")
    reg.add(c)
