"""C04 / C20: the writer side, verified at the byte level on the real bodies.

FileWriter.cwrite#bytes  -- sample-width conformance: what is appended is arr.size * nbits / 8 bytes (packed fields
                            for 1/2/4 bits, the declared sample type for 8/16/32 bits) or the call raises.
Header.prep_outfile#body -- the file is created in mode "w+", the complete header is written exactly once before the
                            writer is returned, nothing else has been written, no repositioning.
The sample-level call-site view used by the streaming writers (pvc/wrmodel.py) is derived from these two and C03.
"""
from pvc.contract import Arr, Bool, Chunks, Const, Contract, Int, LoopSpec, Obj, Opaque, Raises, Real, Str
from pvc.values import VDict
from contracts.kernels_bits import pack_fields
from contracts.readers import header_obj

F = "sigpyproc/io/fileio.py::"
H = "sigpyproc/header.py::"
S = "sigpyproc/io/sigproc.py::"


def outfile_obj():
    return Obj("OutFile", fields={"mode": Const("w+"), "nbytes": Int(0), "hdr_writes": Int(0), "hdr_after_data": Bool(),
                                  "seeks": Int(0), "closed": Const(False), "elems": Chunks("real"), "ebits": Int(),
                                  "last_dtype": Str(), "buffered": Const(False)})


def writer_self(nbits=None):
    return Obj("FileWriter", file="sigpyproc/io/fileio.py", fields={
        "bitsinfo": Obj("BitsInfo", file="sigpyproc/io/bits.py",
                        fields={"nbits": Const(nbits) if nbits is not None else Int(), "digi_sigma": Real()}),
        "rescale": Const(False), "file_obj": outfile_obj(), "ifile_cur": Const(0)})


class A(Arr):
    def __init__(self, kind, dtype):
        super().__init__(kind, dtype)
        self.label = dtype


def register(reg):
    c = Contract(F + "FileWriter.cwrite#bytes", props=["C04", "C20", "C07"],
                 params={"self": writer_self(), "arr": Arr("real", "f4")},
                 cases={"self.bitsinfo.nbits": [1, 2, 4, 8, 16, 32],
                        "arr": [A("bv8", "u1"), A("real", "u2"), A("real", "f4"), A("real", "f8"), A("int", "i8"), A("int", "i4")]},
                 lets={"nbits": "self.bitsinfo.nbits", "n0": "self.file_obj.nbytes"},
                 requires=["self.file_obj.ebits == 0 or self.file_obj.ebits == (8 if nbits < 8 else nbits)"],
                 modifies=["self.file_obj"],
                 # refused (nothing written): a dtype that cannot be packed, or a sample count that is not a whole number of
                 # bytes at a packed depth - samples are never dropped silently
                 raises=[Raises("ValueError", when="nbits < 8 and (arr.dtype != np.uint8 or len(arr) % (8 // nbits) != 0)",
                                post=[("nothing written", "self.file_obj.nbytes == old(self.file_obj.nbytes)")])])
    # never another width than the header declares: exactly size * nbits / 8 bytes
    c.ensure("width", "(self.file_obj.nbytes - n0) * 8 == len(arr) * nbits")
    c.ensure("element size", "self.file_obj.ebits == (8 if nbits < 8 else nbits)")
    # ... and of the declared sample TYPE: an array of the same width but another kind (int32 into a float32 file) is converted
    c.ensure("element type", "self.file_obj.last_dtype == ('u1' if nbits <= 8 else ('u2' if nbits == 16 else 'f4'))")
    c.ensure("append-only", "self.file_obj.seeks == old(self.file_obj.seeks) and "
                            "self.file_obj.hdr_writes == old(self.file_obj.hdr_writes) and "
                            "len(self.file_obj.elems) >= old(len(self.file_obj.elems)) and "
                            "forall(k, 0, old(len(self.file_obj.elems)), self.file_obj.elems[k] == old(self.file_obj.elems[k]))")
    c.ensure("count", "len(self.file_obj.elems) == old(len(self.file_obj.elems)) + "
                      "((len(arr) // (8 // nbits)) if nbits < 8 else len(arr))")
    reg.add(c)

    # ---- to_sigproc / encode_header: header bytes (C05) are opaque here
    c = Contract(H + "Header.to_sigproc", props=["C04", "C20"], trusted=True,
                 trusted_reason="header field mapping and byte encoding are the subject of C05; here the bytes are opaque",
                 params={"self": header_obj()}, ret=Opaque())
    reg.add(c)
    c = Contract(S + "encode_header", props=["C04", "C20"], trusted=True,
                 trusted_reason="C05: returns the complete SIGPROC header bytes (HEADER_START .. HEADER_END)",
                 params={"header": Opaque()}, ret=Opaque())
    reg.add(c)

    # ---- prep_outfile (body): typestate of the freshly prepared file
    class NoneV(Const):
        label = "None"

    class IntV(Int):
        label = "int"

    class EmptyDict(Const):
        label = "dict"

    class DepthDict(Const):
        label = "dict-with-nbits"
    from pvc.values import VInt
    import z3
    c = Contract(H + "Header.prep_outfile#body", props=["C04", "C20", "C07", "C08"],
                 params={"self": header_obj(None, {"tsamp": Real()}), "filename": Opaque(), "updates": Const(None),
                         "nbits": Int(), "rescale": Const(False)},
                 cases={"updates": [NoneV(None), EmptyDict(VDict({})), DepthDict(VDict({"nbits": VInt(z3.IntVal(8))}))],
                        "nbits": [NoneV(None), IntV()]},
                 case_requires={("nbits", "int"): ["nbits in (1, 2, 4, 8, 16, 32)"]},
                 requires=["self.nbits in (1, 2, 4, 8, 16, 32)"],
                 inline_calls=[F + "FileBase._open"],
                 ret=Opaque())
    # the header that is encoded declares the depth the writer packs at (C08: nbits equals the on-disk depth)
    c.after_assign["new_hdr"] = [("header declares the written depth", "new_hdr.nbits == nbits")]
    # the depth: the explicit argument, else the one requested through the header updates, else the input's
    c.ensure("depth", "result.bitsinfo.nbits == (nbits if not is_none(nbits) else "
                      "((8 if not is_none(updates) and len(updates) == 1 else self.nbits)))")
    c.ensure("header once, first", "result.file_obj.hdr_writes == 1 and not result.file_obj.hdr_after_data and "
                                   "result.file_obj.nbytes == 0 and len(result.file_obj.elems) == 0")
    c.ensure("append mode", "result.file_obj.mode == 'w+' and result.file_obj.seeks == 0 and not result.file_obj.closed")
    # C20: what a write returns from is on disk - the writer's file object is the raw io.FileIO, not a buffered stream
    c.ensure("unbuffered", "not result.file_obj.buffered")
    reg.add(c)


def register_to_tim(reg):
    """TimeSeries.to_tim (C04, C20, C08): the whole series is appended once, as float32, behind a header written first that
    declares 32 bits."""
    from pvc.contract import Real
    TS = "sigpyproc/timeseries.py::"
    ts = Obj("TimeSeries", file="sigpyproc/timeseries.py",
             fields={"_data": Arr("real", "f4"), "_header": header_obj(None, {"tsamp": Real(), "tstart": Real(), "dm": Real()})})
    c = Contract(TS + "TimeSeries.to_tim", props=["C04", "C20", "C08"],
                 params={"self": ts, "filename": Opaque()},
                 requires=["self._header.nbits in (1, 2, 4, 8, 16, 32)"], ret=Opaque())
    c.ensure("every sample written once, in order",
             "len(outfile.usamples) == len(self._data) and forall(i, 0, len(self._data), outfile.usamples[i] == self._data[i])")
    c.ensure("typestate", "outfile.file_obj.hdr_writes == 1 and not outfile.file_obj.hdr_after_data and outfile.file_obj.seeks == 0")
    c.ensure("depth", "outfile.bitsinfo.nbits == 32 and outfile.out_header.nbits == 32")
    c.ensure("timing metadata kept", "outfile.out_header.tsamp == self._header.tsamp and outfile.out_header.tstart == self._header.tstart "
                                     "and outfile.out_header.dm == self._header.dm")
    reg.add(c)


def register_block_to_file(reg):
    """FilterbankBlock.to_file (C04, C20, C08): the block is written time-major (sample t, channel c at t*nchans + c), once,
    as float32 behind a header that declares 32 bits."""
    from pvc.contract import Arr2, Real
    BL = "sigpyproc/block.py::"
    hdr = header_obj(None, {"tsamp": Real(), "tstart": Real(), "dm": Real(), "foff": Real(), "fch1": Real()})
    blk = Obj("FilterbankBlock", file="sigpyproc/block.py", fields={"_data": Arr2("real", "f4"), "_header": hdr, "_dm": Real()})
    c = Contract(BL + "FilterbankBlock.to_file", props=["C04", "C20", "C08"],
                 params={"self": blk, "filename": Opaque()},
                 requires=["self._header.nbits in (1, 2, 4, 8, 16, 32)"], ret=Opaque())
    c.ensure("time-major, every sample once",
             "len(out_file.usamples) == self._data.shape[0] * self._data.shape[1] and "
             "forall(t, 0, self._data.shape[1], forall(c, 0, self._data.shape[0], "
             "out_file.usamples[self._data.shape[0] * t + c] == self._data[c, t]))")
    c.ensure("typestate", "out_file.file_obj.hdr_writes == 1 and not out_file.file_obj.hdr_after_data and out_file.file_obj.seeks == 0")
    c.ensure("depth", "out_file.bitsinfo.nbits == 32 and out_file.out_header.nbits == 32")
    c.ensure("metadata kept", "out_file.out_header.tsamp == self._header.tsamp and out_file.out_header.tstart == self._header.tstart "
                              "and out_file.out_header.fch1 == self._header.fch1 and out_file.out_header.foff == self._header.foff "
                              "and out_file.out_header.nchans == self._header.nchans")
    reg.add(c)


def register_to_dat(reg):
    """TimeSeries.to_dat (C04): the PRESTO .dat holds every sample of the series, once, as raw float32, and the .inf is made
    from the header that describes exactly those samples. Header.make_inf (decimal text; C05-style formatting is compared by
    the bounded stand-in) is assumed to record the sample count of the header it is called on."""
    from pvc.contract import Real
    TS = "sigpyproc/timeseries.py::"
    hdr = header_obj(None, {"tsamp": Real(), "tstart": Real(), "dm": Real(), "inf_nsamples": Int(), "inf_tsamp": Real()})
    c = Contract(H + "Header.make_inf", props=["C04"], trusted=True,
                 trusted_reason="text formatting of the .inf file (bounded stand-in c04.py reads it back); here: it describes "
                                "the header it is called on (ghost fields inf_nsamples / inf_tsamp)",
                 params={"self": hdr, "outfile": Opaque()}, modifies=["self.inf_nsamples", "self.inf_tsamp"], ret=Opaque())
    c.ensure("describes this header", "self.inf_nsamples == self.nsamples and self.inf_tsamp == self.tsamp")
    reg.add(c)
    ts = Obj("TimeSeries", file="sigpyproc/timeseries.py", fields={"_data": Arr("real", "f4"), "_header": hdr})
    c = Contract(TS + "TimeSeries.to_dat", props=["C04"], params={"self": ts, "basename": Opaque()},
                 requires=["len(self._data) == self._header.nsamples"], modifies=["self._header"], ret=Opaque())
    c.ensure("one raw file", "named_out_count() == 1 and named_out().hdr_writes == 0 and named_out().ebits == 32")
    c.ensure("every sample written once, in order",
             "len(named_out().elems) == len(self._data) and "
             "forall(i, 0, len(self._data), named_out().elems[i] == self._data[i])")
    c.ensure(".inf describes the samples written", "self._header.inf_nsamples == len(self._data) and "
                                                   "self._header.inf_tsamp == self._header.tsamp")
    reg.add(c)


_r_w = register


def register(reg):  # noqa: F811
    _r_w(reg)
    register_to_tim(reg)
    register_block_to_file(reg)
    register_to_dat(reg)
