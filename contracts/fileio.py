"""C02 (and the chains of C01/C04/C06/C07/C20): FileBase / FileReader against the byte-stream model.

Representation invariant RI and abstraction `spos` (stream position of a plain byte-array model):
  RI:   0 <= ifile_cur < nf, file_obj is file ifile_cur, hdrlen <= tell <= hdrlen + datalen
  spos: csum(ifile_cur) + tell - hdrlen(ifile_cur)
Every public operation requires RI and re-establishes it, moving spos exactly as the model does.
"""
from pvc.contract import Arr, Bool, Const, Contract, Int, LoopSpec, Obj, Opaque, Raises, Real
from contracts.kernels_bits import unpack_fields
from pvc.iomodel import stream_entries, stream_files
from pvc.values import VFunc

F = "sigpyproc/io/fileio.py::"
S = "sigpyproc/io/sigproc.py::"

STREAM = ["nf() >= 1", "forall(i, 0, nf(), hdrlen(i) >= 0 and datalen(i) >= 0)"]
RI = ("self.ifile_cur >= 0 and self.ifile_cur < nf() and self.file_obj.fid == self.ifile_cur and "
      "self.file_obj.pos >= hdrlen(self.ifile_cur) and "
      "self.file_obj.pos <= hdrlen(self.ifile_cur) + datalen(self.ifile_cur)")
SPOS = "(csum(self.ifile_cur) + self.file_obj.pos - hdrlen(self.ifile_cur))"
TOTAL = "csum(nf())"
UNCHANGED = [("state unchanged", "self.ifile_cur == old(self.ifile_cur) and self.file_obj.fid == old(self.file_obj.fid) "
                                 "and self.file_obj.pos == old(self.file_obj.pos)")]
NBITS = [1, 2, 4, 8, 16, 32]


def sinfo_obj():
    return Obj("StreamInfo", file="sigpyproc/io/sigproc.py", fields={"entries": Const(stream_entries())})


def reader_self(nbits=None):
    return Obj("FileReader", file="sigpyproc/io/fileio.py", fields={
        "ifile_cur": Int(),
        "file_obj": Obj("FileIO", fields={"fid": Int(), "pos": Int(), "closed": Const(False), "mode": Const("r")}),
        "sinfo": sinfo_obj(),
        "bitsinfo": Obj("BitsInfo", file="sigpyproc/io/bits.py",
                        fields={"nbits": Const(nbits) if nbits is not None else Int(), "digi_sigma": Real()}),
        "files": Const(stream_files()), "mode": Const("r"), "opener": Const(VFunc("model", "io.FileIO")),
    })


def register(reg):
    MODS = ["self.ifile_cur", "self.file_obj"]
    # the positioned-read chain under the generator: also run by the streaming reductions and transforms that consume it
    CH = ["C02", "C01", "C06", "C07", "C09", "C11", "C16", "C20"]

    # ---- assumed contracts (np.cumsum / sum of the per-file datalen list: A-NP)
    c = Contract(S + "StreamInfo.cumsum_datalens", props=CH, trusted=True,
                 trusted_reason="np.cumsum of the per-file datalen list equals the ghost csum (A-NP); sampled natively",
                 params={"self": sinfo_obj()}, ret=Arr("int", "i8"))
    c.ensure("cumsum", "len(result) == nf() and forall(i, 0, nf(), result[i] == csum(i + 1))")
    reg.add(c)
    c = Contract(S + "StreamInfo.get_combined", props=CH, trusted=True,
                 trusted_reason="sum of the per-file list equals the ghost csum(nf) for key 'datalen' (A-NP)",
                 params={"self": sinfo_obj(), "key": Opaque()}, ret=Int())
    c.ensure("total", "result == csum(nf())")
    reg.add(c)

    # ---- FileBase._open
    c = Contract(F + "FileBase._open", props=CH, params={"self": reader_self(), "ifile": Int()},
                 requires=STREAM + ["self.ifile_cur >= 0 and self.ifile_cur < nf() and self.file_obj.fid == self.ifile_cur"],
                 modifies=MODS,
                 raises=[Raises("ValueError", when="ifile < 0 or ifile >= nf()", post=UNCHANGED)])
    c.ensure("current", "self.ifile_cur == ifile and self.file_obj.fid == ifile")
    c.ensure("fresh-at-0", "implies(ifile != old(self.ifile_cur), self.file_obj.pos == 0)")
    c.ensure("same-kept", "implies(ifile == old(self.ifile_cur), self.file_obj.pos == old(self.file_obj.pos))")
    reg.add(c)

    # ---- FileBase.eos
    c = Contract(F + "FileBase.eos", props=CH, params={"self": reader_self()}, requires=STREAM + [RI], ret=Bool())
    c.ensure("eos", "result == (self.file_obj.pos == hdrlen(self.ifile_cur) + datalen(self.ifile_cur) "
                    "and self.ifile_cur == nf() - 1)")
    c.ensure("frame", UNCHANGED[0][1])
    reg.add(c)

    # ---- positions
    c = Contract(F + "FileReader.cur_data_pos_file", props=CH, params={"self": reader_self()}, requires=STREAM + [RI], ret=Int())
    c.ensure("pos", "result == self.file_obj.pos - hdrlen(self.ifile_cur)")
    reg.add(c)
    c = Contract(F + "FileReader.cur_data_pos_stream", props=CH, params={"self": reader_self()},
                 requires=STREAM + [RI], ret=Int())
    c.ensure("model position", f"result == {SPOS}")
    c.ensure("frame", UNCHANGED[0][1])
    reg.add(c)

    # ---- _seek2hdr
    c = Contract(F + "FileReader._seek2hdr", props=CH, params={"self": reader_self(), "ifile": Int()},
                 requires=STREAM + ["self.ifile_cur >= 0 and self.ifile_cur < nf() and self.file_obj.fid == self.ifile_cur"],
                 modifies=MODS,
                 raises=[Raises("ValueError", when="ifile < 0 or ifile >= nf()", post=UNCHANGED)])
    c.ensure("at header end", "self.ifile_cur == ifile and self.file_obj.fid == ifile and "
                              "self.file_obj.pos == hdrlen(ifile)")
    reg.add(c)

    # ---- _seek_set
    c = Contract(F + "FileReader._seek_set", props=CH, params={"self": reader_self(), "offset": Int()},
                 requires=STREAM + [RI], modifies=MODS,
                 raises=[Raises("ValueError", when=f"offset < 0 or offset >= {TOTAL}", post=UNCHANGED)])
    c.ensure("RI", RI)
    c.ensure("model position", f"{SPOS} == offset")
    reg.add(c)

    # ---- seek
    c = Contract(F + "FileReader.seek", props=CH, params={"self": reader_self(), "offset": Int(), "whence": Int()},
                 requires=STREAM + [RI], modifies=MODS, lets={"spos0": SPOS},
                 raises=[Raises("ValueError",
                                when=f"(whence == 0 and (offset < 0 or offset >= {TOTAL})) or "
                                     f"(whence == 1 and (offset + spos0 < 0 or offset + spos0 >= {TOTAL})) or "
                                     "(whence != 0 and whence != 1)", post=UNCHANGED)])
    c.ensure("RI", RI)
    c.ensure("absolute", f"implies(whence == 0, {SPOS} == offset)")
    c.ensure("relative", f"implies(whence == 1, {SPOS} == old({SPOS}) + offset)")
    reg.add(c)

    # ---- creadinto
    class NoBuf(Const):
        label = "None"

    class Buf(Arr):
        label = "buffer"
    c = Contract(F + "FileReader.creadinto", props=CH,
                 params={"self": reader_self(), "read_buffer": Arr("bv8", "u1"), "unpack_buffer": Arr("bv8", "u1")},
                 cases={"self.bitsinfo.nbits": NBITS, "unpack_buffer": [NoBuf(None), Buf("bv8", "u1")]},
                 requires=STREAM + [RI, "is_none(unpack_buffer) or distinct(read_buffer, unpack_buffer)",
                                    "implies(not is_none(unpack_buffer) and self.bitsinfo.nbits < 8, "
                                    "len(unpack_buffer) == len(read_buffer) * (8 // self.bitsinfo.nbits))"],
                 modifies=MODS + ["read_buffer", "unpack_buffer"], lets={"spos0": SPOS}, ret=Int(),
                 raises=[Raises("ValueError", when="self.bitsinfo.nbits < 8 and is_none(unpack_buffer)")])
    delivered = "forall(k, 0, {n}, {buf}[k] == Dbyte(spos0 + k))"
    rest = "forall(k, {n}, len({buf}), {buf}[k] == old(read_buffer[k]))"
    c.loops["0:while"] = LoopSpec([
        ("RI", RI), ("count", "0 <= nbytes and nbytes <= len(read_buffer_view)"),
        ("position", f"{SPOS} == spos0 + nbytes"),
        ("bound", f"{SPOS} <= csum(self.ifile_cur + 1) and csum(self.ifile_cur + 1) <= {TOTAL}"),
        ("delivered", delivered.format(n="nbytes", buf="read_buffer_view")),
        ("rest", rest.format(n="nbytes", buf="read_buffer_view"))])
    c.ensure("count", f"result == (len(read_buffer) if len(read_buffer) <= {TOTAL} - spos0 else {TOTAL} - spos0)")
    c.ensure("delivered", delivered.format(n="result", buf="read_buffer"))
    c.ensure("rest", rest.format(n="result", buf="read_buffer"))
    c.ensure("RI", RI)
    c.ensure("position", f"{SPOS} == spos0 + result")
    for nb in (1, 2, 4):
        for order in ("big", "little"):
            body = unpack_fields(nb, order, "read_buffer", "unpack_buffer")
            c.ensure(f"unpacked[{nb},{order}]",
                     f"implies(self.bitsinfo.nbits == {nb} and self.bitsinfo.bitorder == '{order}' and "
                     f"not is_none(unpack_buffer), forall(i, 0, len(read_buffer), {body}))")
    reg.add(c)

    # ---- cread
    c = Contract(F + "FileReader.cread", props=["C02"],
                 params={"self": reader_self(), "nunits": Int()},
                 cases={"self.bitsinfo.nbits": NBITS},
                 requires=STREAM + [RI, "nunits >= 0"], modifies=MODS,
                 lets={"spos0": SPOS, "isz": "self.bitsinfo.itemsize", "count0": "nunits // self.bitsinfo.bitfact"},
                 ret=Arr("real", None),
                 raises=[Raises("ValueError", when=f"spos0 + count0 * isz > {TOTAL}")])
    elem = {1: "Dbyte(spos0 + k)", 2: "dec16(Dbyte(spos0 + 2*k), Dbyte(spos0 + 2*k + 1))",
            4: "dec32(Dbyte(spos0 + 4*k), Dbyte(spos0 + 4*k + 1), Dbyte(spos0 + 4*k + 2), Dbyte(spos0 + 4*k + 3))"}
    for nb in NBITS:
        isz = {16: 2, 32: 4}.get(nb, 1)
        tag = ("self.bitsinfo.nbits", str(nb))
        c.case_requires[tag] = []
    c.loops["0:while"] = LoopSpec([
        ("RI", RI), ("count", "0 <= nbytes and nbytes <= len(read_buffer_view) and len(read_buffer_view) == count0 * isz"),
        ("position", f"{SPOS} == spos0 + nbytes"),
        ("bound", f"{SPOS} <= csum(self.ifile_cur + 1) and csum(self.ifile_cur + 1) <= {TOTAL}"),
        ("delivered", "forall(k, 0, nbytes, read_buffer_view[k] == Dbyte(spos0 + k))")])
    c.ensure("RI", RI)
    c.ensure("position", f"{SPOS} == spos0 + count0 * isz")
    c.ensure("bytes[8]", "implies(self.bitsinfo.nbits == 8, len(result) == count0 and "
                         "forall(k, 0, count0, result[k] == " + elem[1] + "))")
    c.ensure("elems[16]", "implies(self.bitsinfo.nbits == 16, len(result) == count0 and "
                          "forall(k, 0, count0, result[k] == " + elem[2] + "))")
    c.ensure("elems[32]", "implies(self.bitsinfo.nbits == 32, len(result) == count0 and "
                          "forall(k, 0, count0, result[k] == " + elem[4] + "))")
    for nb in (1, 2, 4):
        for order in ("big", "little"):
            f = 8 // nb
            from contracts.kernels_bits import shift
            body = " and ".join(f"result[{f}*i+{j}] == bits(Dbyte(spos0 + i), {shift(nb, order, j)}, {nb})"
                                for j in range(f))
            c.ensure(f"fields[{nb},{order}]",
                     f"implies(self.bitsinfo.nbits == {nb} and self.bitsinfo.bitorder == '{order}', "
                     f"len(result) == {f} * count0 and forall(i, 0, count0, {body}))")
    reg.add(c)

    # ---- lemma: csum is monotone (induction), used as an axiom by the stream contracts
    c = Contract("verif:specs/clients.py::lemma_csum_mono", props=["C02", "C01", "C06", "C07", "C09", "C11", "C16", "C20"], no_lemma_axioms=True,
                 params={"a": Int(), "b": Int()}, requires=STREAM + ["0 <= a and a <= b and b <= nf()"],
                 decreases="b - a")
    c.ensure("monotone", "csum(a) <= csum(b)")
    reg.add(c)
