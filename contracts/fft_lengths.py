"""C12 (the part a contract can decide): transform-length bookkeeping of the FFT paths.

numpy's FFT itself is external float code: what it computes is ASSUMED to be the discrete Fourier sum (checked
numerically by the bounded driver against float64 direct evaluation).  What IS decided here, for every length:
  TimeSeries.rfft      spectrum of GOOD(n)//2 + 1 bins, header.nsamples == GOOD(n)   (GOOD = rocket_fft good size >= n)
  FourierSeries.ifft   returns exactly header.nsamples samples - the transform length, also when it is odd or 1
  rfft then ifft       (client lemma) a series of length GOOD(n): the input zero-padded to the transform length
  kernels.fftconvolve  output length n1 + n2 - 1 (full linear convolution), slice inside the padded transform
  TimeSeries.correlate output length n + m - 1 = lags -(m-1) .. n-1
Assumed: np.fft.rfft(a, n) has n//2 + 1 bins, np.fft.irfft(a, n) has n samples (n >= 1), good_size(n) >= n.
"""
from pvc.contract import Arr, Const, Contract, Int, Obj, Opaque, Raises, Real

K = "sigpyproc/core/kernels.py::"
TS = "sigpyproc/timeseries.py::"
FS = "sigpyproc/fourierseries.py::"


def hdr():
    return Obj("Header", file="sigpyproc/header.py", fields={"nsamples": Int(0), "nchans": Int(1), "tsamp": Real()})


def register(reg):
    c = Contract(K + "nb_fft_good_size", props=["C12"], trusted=True,
                 trusted_reason="rocket_fft.good_size (external): assumed to return a length >= n, a function of n and `real`",
                 params={"n": Int(), "real": Opaque()}, ret=Int(), requires=["n >= 1"])
    c.ensure("good", "result == GOOD(n) and result >= n")
    reg.add(c)
    c = Contract(K + "nb_rfft", props=["C12"], trusted=True,
                 trusted_reason="np.fft.rfft (external float code): assumed n//2 + 1 complex bins of the DFT of the input "
                                "zero-padded / truncated to n",
                 params={"arr": Arr("real", "f4"), "n": Int()}, ret=Arr("real", "c8"), requires=["n >= 1"])
    c.ensure("bins", "len(result) == n // 2 + 1")
    reg.add(c)
    class NoneV(Const):
        label = "None"

    class IntV(Int):
        label = "int"
    c = Contract(K + "nb_irfft", props=["C12"], trusted=True,
                 trusted_reason="np.fft.irfft (external float code): assumed n real samples, the inverse of rfft at length n "
                                "(n defaults to 2*(bins-1)); raises for a length < 1",
                 params={"arr": Arr("real", "c8"), "n": Int()}, cases={"n": [NoneV(None), IntV()]},
                 lets={"m": "2 * (len(arr) - 1) if is_none(n) else n"}, ret=Arr("real", "f4"),
                 raises=[Raises("ValueError", when="m < 1")])
    c.ensure("samples", "len(result) == m")
    reg.add(c)

    fs = Obj("FourierSeries", file="sigpyproc/fourierseries.py", fields={"_data": Arr("real", "c8"), "_header": hdr()})
    ts = Obj("TimeSeries", file="sigpyproc/timeseries.py", fields={"_data": Arr("real", "f4"), "_header": hdr()})
    c = Contract(TS + "TimeSeries.rfft", props=["C12"], params={"self": ts, "fftn": Const(None)},
                 requires=["len(self._data) == self._header.nsamples", "self._header.nsamples >= 1"], ret=fs)
    c.ensure("transform length", "result._header.nsamples == GOOD(self._header.nsamples) and "
                                 "GOOD(self._header.nsamples) >= self._header.nsamples")
    c.ensure("bins", "len(result._data) == GOOD(self._header.nsamples) // 2 + 1")
    reg.add(c)

    c = Contract(FS + "FourierSeries.ifft", props=["C12"], params={"self": fs, "ifftn": Const(None)},
                 requires=["len(self._data) == self._header.nsamples // 2 + 1", "self._header.nsamples >= 1"], ret=ts)
    c.ensure("transform length", "len(result._data) == self._header.nsamples and result._header.nsamples == self._header.nsamples")
    reg.add(c)

    c = Contract(K + "fftconvolve", props=["C12"], params={"in1": Arr("real", "f4"), "in2": Arr("real", "f4")},
                 ret=Arr("real", "f4"))
    c.ensure("full linear convolution length",
             "len(result) == (0 if len(in1) == 0 or len(in2) == 0 else len(in1) + len(in2) - 1)")
    reg.add(c)

    c = Contract(TS + "TimeSeries.correlate", props=["C12"], params={"self": ts, "other": Arr("real", "f4")},
                 requires=["len(self._data) == self._header.nsamples", "self._header.nsamples >= 1", "len(other) >= 1"], ret=ts)
    c.ensure("all lags -(m-1) .. n-1", "len(result._data) == self._header.nsamples + len(other) - 1 and "
                                       "result._header.nsamples == self._header.nsamples + len(other) - 1")
    reg.add(c)

    # ---- rfft then ifft: the series comes back at the transform length (input zero-padded), for every n >= 1
    CL = "verif:specs/clients.py::"
    c = Contract(CL + "rfft_ifft_length", props=["C12"], params={"ts": ts},
                 requires=["len(ts._data) == ts._header.nsamples", "ts._header.nsamples >= 1"], ret=ts)
    c.ensure("padded length", "len(result._data) == GOOD(ts._header.nsamples) and "
                              "result._header.nsamples == GOOD(ts._header.nsamples) and GOOD(ts._header.nsamples) >= ts._header.nsamples")
    reg.add(c)
