"""Streaming kernels (kernels.py): sum/selection kernels used by C06, C07, C11, C14, C16, C19.

Arrays of samples are modelled as reals (A-REAL): uint8 samples are integers embedded in the reals, float32
accumulation is treated as exact (the properties are stated on integer-valued data / within accumulation error).
Input blocks are *views* (symbolic offset into a larger object) because callers pass slices of the read buffer /
of the ghost sample array.
"""
from pvc.contract import Arr, Bool, Contract, Int, LoopSpec, Real

K = "sigpyproc/core/kernels.py::"


def register(reg):
    GB = {"B": Int(0)}          # ghost: the input block starts at sample B of the underlying flat array
    ATB = "off(inarray) == nchans * B"

    # ------------------------------------------------------------------ extract_tim
    c = Contract(K + "extract_tim", props=["C06"], ghost_params=dict(GB),
                 params={"inarray": Arr("real", None, view=True), "outarray": Arr("real", "f4"),
                         "nchans": Int(), "nsamps": Int(), "index": Int()},
                 requires=["nchans >= 0", "nsamps >= 0", "nchans * nsamps <= len(inarray)", "index >= 0",
                           "index + nsamps <= len(outarray)", "distinct(inarray, outarray)", ATB],
                 modifies=["outarray"])
    # stated over the absolute output index j (no arithmetic inside the quantified subscript: callers match on it)
    body = "outarray[j] == rsum(arr(inarray), nchans, B + j - index, nchans)"
    frame = "forall(k, 0, len(outarray), implies(k < index or k >= index + {n}, outarray[k] == old(outarray[k])))"
    c.loops["0:isamp"] = LoopSpec([("rowsum", f"forall(j, index, index + isamp, {body})"), ("frame", frame.format(n="isamp"))],
                                  body_hints=[("np.sum is the row sum", "lemma_rsum(arr(inarray), nchans, B + isamp, nchans)")])
    c.ensure("rowsum", f"forall(j, index, index + nsamps, {body})")
    c.ensure("frame", frame.format(n="nsamps"))
    reg.add(c)

    # ------------------------------------------------------------------ extract_bpass
    c = Contract(K + "extract_bpass", props=["C06"], ghost_params=dict(GB),
                 params={"inarray": Arr("real", None, view=True), "outarray": Arr("real", "f4"),
                         "nchans": Int(), "nsamps": Int()},
                 requires=["nchans >= 0", "nsamps >= 0", "nchans * nsamps <= len(inarray)",
                           "nchans <= len(outarray)", "distinct(inarray, outarray)", ATB],
                 modifies=["outarray"])
    col = "outarray[{c}] == old(outarray[{c}]) + colsum(arr(inarray), nchans, {c}, B, {n})"
    c.loops["0:ichan"] = LoopSpec([
        ("colsum", "forall(c, 0, ichan, " + col.format(c="c", n="nsamps") + ")"),
        ("frame", "forall(c, ichan, len(outarray), outarray[c] == old(outarray[c]))")])
    c.loops["1:isamp"] = LoopSpec([
        ("colsum", "forall(c, 0, ichan, " + col.format(c="c", n="nsamps") + ")"),
        ("cur", col.format(c="ichan", n="isamp")),
        ("frame", "forall(c, ichan + 1, len(outarray), outarray[c] == old(outarray[c]))")])
    c.ensure("colsum", "forall(c, 0, nchans, " + col.format(c="c", n="nsamps") + ")")
    c.ensure("frame", "forall(c, nchans, len(outarray), outarray[c] == old(outarray[c]))")
    reg.add(c)

    # ------------------------------------------------------------------ mask_channels
    c = Contract(K + "mask_channels", props=["C07", "C16"], ghost_params={"B": Int(0)},
                 params={"array": Arr("real", None, view=True), "mask": Arr("bool", "b1"), "maskvalue": Real(),
                         "nchans": Int(), "nsamps": Int()},
                 requires=["nchans >= 0", "nsamps >= 0", "nchans * nsamps <= len(array)", "nchans <= len(mask)",
                           "distinct(array, mask)"],
                 modifies=["array"])
    at = "array[nchans * (T - B) + {c}]"
    cell = (at.format(c="c") + " == (maskvalue if mask[c] else old(" + at.format(c="c") + "))")
    same = at + " == old(" + at + ")"
    c.loops["0:ichan"] = LoopSpec([
        ("done", f"forall(c, 0, ichan, forall(T, B, B + nsamps, {cell}))"),
        ("todo", "forall(c, ichan, nchans, forall(T, B, B + nsamps, " + same.format(c="c") + "))"),
        ("tail", "forall(k, nchans * nsamps, len(array), array[k] == old(array[k]))"), ("flat", "forall(k, 0, len(array), array[k] == maskvalue or array[k] == old(array[k]))")])
    c.loops["1:isamp"] = LoopSpec([
        ("done", f"forall(c, 0, ichan, forall(T, B, B + nsamps, {cell}))"),
        ("cur", "forall(T, B, B + isamp, " + at.format(c="ichan") + " == maskvalue)"),
        ("curtodo", "forall(T, B + isamp, B + nsamps, " + same.format(c="ichan") + ")"),
        ("todo", "forall(c, ichan + 1, nchans, forall(T, B, B + nsamps, " + same.format(c="c") + "))"),
        ("tail", "forall(k, nchans * nsamps, len(array), array[k] == old(array[k]))"), ("flat", "forall(k, 0, len(array), array[k] == maskvalue or array[k] == old(array[k]))")])
    c.ensure("masked", f"forall(c, 0, nchans, forall(T, B, B + nsamps, {cell}))")
    c.ensure("flat", "forall(k, 0, len(array), array[k] == maskvalue or array[k] == old(array[k]))")
    c.ensure("tail", "forall(k, nchans * nsamps, len(array), array[k] == old(array[k]))")
    reg.add(c)

    # ------------------------------------------------------------------ dedisperse
    c = Contract(K + "dedisperse", props=["C06", "C09"], ghost_params=dict(GB),
                 params={"inarray": Arr("real", None, view=True), "outarray": Arr("real", "f4"),
                         "delays": Arr("int", "i4"), "maxdelay": Int(), "nchans": Int(), "nsamps": Int(),
                         "index": Int()},
                 requires=["nchans >= 0", "maxdelay >= 0", "nsamps >= 0", "nchans * nsamps <= len(inarray)",
                           "nchans <= len(delays)", "forall(c, 0, nchans, 0 <= delays[c] and delays[c] <= maxdelay)",
                           "index >= 0", "implies(nsamps > maxdelay, index + nsamps - maxdelay <= len(outarray))",
                           "distinct(inarray, outarray, delays)", ATB],
                 modifies=["outarray"])
    cell = ("outarray[{j}] == old(outarray[{j}]) + dsum(arr(inarray), nchans, B + {j} - index, arr(delays), {n})")
    frame = "forall(k, 0, len(outarray), implies(k < index or k >= index + {n}, outarray[k] == old(outarray[k])))"
    c.loops["0:isamp"] = LoopSpec([("dsum", "forall(j, index, index + isamp, " + cell.format(j="j", n="nchans") + ")"),
                                   ("frame", frame.format(n="isamp"))])
    c.loops["1:ichan"] = LoopSpec([("dsum", "forall(j, index, index + isamp, " + cell.format(j="j", n="nchans") + ")"),
                                   ("cur", cell.format(j="(index + isamp)", n="ichan")),
                                   ("frame", frame.format(n="isamp + 1"))])
    c.ensure("dsum", "forall(j, index, index + nsamps - maxdelay, " + cell.format(j="j", n="nchans") + ")")
    c.ensure("frame", frame.format(n="(nsamps - maxdelay if nsamps > maxdelay else 0)"))
    reg.add(c)

    # ------------------------------------------------------------------ invert_freq
    # ghost B: time origin of the block; clauses are stated over the absolute sample index T = B + (row in block),
    # so that a caller appending blocks one after the other matches them without re-indexing
    c = Contract(K + "invert_freq", props=["C07"], ghost_params={"B": Int(0), "LO": Real(), "HI": Real(), "CHK": Bool()},
                 params={"array": Arr("real", None, view=True), "nchans": Int(), "nsamps": Int()},
                 requires=["nchans >= 0", "nsamps >= 0", "nchans * nsamps <= len(array)",
                           "implies(CHK, forall(k, off(array), off(array) + len(array), LO <= raw(array, k) and raw(array, k) <= HI))"],
                 ret=Arr("real", None), ret_like="array")
    cell = ("forall(c, 0, nchans, {out}[nchans * (T - B) + c] == array[nchans * (T - B) + (nchans - 1 - c)])")
    inrange = "forall(k, 0, len(array), LO <= array[k] and array[k] <= HI)"
    c.loops["0:isamp"] = LoopSpec([("reversed", "forall(T, B, B + isamp, " + cell.format(out="outarray") + ")"),
                                   ("len", "len(outarray) == len(array) and distinct(outarray, array)"),
                                   ("range", "implies(CHK, forall(k, 0, nchans * isamp, "
                                             "LO <= outarray[k] and outarray[k] <= HI))")])
    c.ensure("len", "len(result) == len(array)")
    # a permutation keeps every value inside whatever range the input lies in (used for the packed depths)
    c.ensure("range", "implies(CHK, forall(k, 0, nchans * nsamps, LO <= result[k] and result[k] <= HI))")
    c.ensure("reversed", "forall(T, B, B + nsamps, " + cell.format(out="result") + ")")
    reg.add(c)

    # ------------------------------------------------------------------ subband
    c = Contract(K + "subband", props=["C07"], ghost_params={"B": Int(0), "A0": Int(0)},
                 params={"inarray": Arr("real", None, view=True), "outarray": Arr("real", "f4"),
                         "delays": Arr("int", "i4"), "chan_to_sub": Arr("int", "i4"), "maxdelay": Int(),
                         "nchans": Int(), "nsubs": Int(), "nsamps": Int()},
                 requires=["nchans >= 0", "maxdelay >= 0", "nsamps >= 0", "nsubs >= 1",
                           "nchans * nsamps <= len(inarray)", "nchans <= len(delays)", "nchans <= len(chan_to_sub)",
                           "forall(c, 0, nchans, 0 <= delays[c] and delays[c] <= maxdelay)",
                           "forall(c, 0, nchans, 0 <= chan_to_sub[c] and chan_to_sub[c] < nsubs)",
                           "implies(nsamps > maxdelay, nsubs * (nsamps - maxdelay) <= len(outarray))",
                           "distinct(inarray, outarray, delays, chan_to_sub)", "off(inarray) == nchans * A0"],
                 modifies=["outarray"])
    at = "outarray[nsubs * ({T} - B) + s]"
    cell = (at + " == old(" + at + ") + dsel(arr(inarray), nchans, A0 + {T} - B, arr(delays), arr(chan_to_sub), s, {n})")
    c.loops["0:isamp"] = LoopSpec([
        ("dsel", "forall(T, B, B + isamp, forall(s, 0, nsubs, " + cell.format(T="T", n="nchans") + "))"),
        ("frame", "forall(k, nsubs * isamp, len(outarray), outarray[k] == old(outarray[k]))")])
    c.loops["1:ichan"] = LoopSpec([
        ("dsel", "forall(T, B, B + isamp, forall(s, 0, nsubs, " + cell.format(T="T", n="nchans") + "))"),
        ("cur", "forall(s, 0, nsubs, " + cell.format(T="(B + isamp)", n="ichan") + ")"),
        ("frame", "forall(k, nsubs * (isamp + 1), len(outarray), outarray[k] == old(outarray[k]))")])
    c.ensure("dsel", "forall(T, B, B + nsamps - maxdelay, forall(s, 0, nsubs, " + cell.format(T="T", n="nchans") + "))")
    c.ensure("frame", "forall(k, nsubs * (nsamps - maxdelay if nsamps > maxdelay else 0), len(outarray), "
                      "outarray[k] == old(outarray[k]))")
    reg.add(c)

    # ------------------------------------------------------------------ downsample_1d_mean
    c = Contract(K + "downsample_1d_mean", props=["C14"],
                 params={"array": Arr("real", "f4", view=True), "factor": Int()},
                 requires=["factor >= 1"], ret=Arr("real", "f4"))
    cell = "{out}[i] == ssum(arr(array), off(array) + factor * i, 1, factor) / factor"
    c.loops["0:isamp"] = LoopSpec([("mean", "forall(i, 0, isamp, " + cell.format(out="result") + ")"),
                                   ("len", "len(result) == len(array) // factor and distinct(result, array)")])
    c.loops["1:ifactor"] = LoopSpec([
        ("mean", "forall(i, 0, isamp, " + cell.format(out="result") + ")"),
        ("acc", "temp == ssum(arr(array), off(array) + factor * isamp, 1, ifactor)"),
        ("len", "len(result) == len(array) // factor and distinct(result, array)")])
    c.ensure("len", "len(result) == len(array) // factor")
    c.ensure("mean", "forall(i, 0, len(array) // factor, " + cell.format(out="result") + ")")
    reg.add(c)

    # ------------------------------------------------------------------ downsample_2d_mean_flat
    c = Contract(K + "downsample_2d_mean_flat", props=["C14"],
                 params={"array": Arr("real", "f4", view=True), "factor1": Int(), "factor2": Int(), "dim1": Int(),
                         "dim2": Int()},
                 requires=["factor1 >= 1", "factor2 >= 1", "dim1 >= 0", "dim2 >= 0", "dim1 * dim2 <= len(array)"],
                 ret=Arr("real", "f4"))
    nd2 = "(dim2 // factor2)"
    cell = ("result[" + nd2 + " * {I} + {J}] == ssum2(arr(array), off(array) + dim2 * factor1 * {I} + factor2 * {J}, dim2, "
            "factor2, factor1) / (factor1 * factor2)")
    geom = "len(result) == (dim1 // factor1) * (dim2 // factor2) and distinct(result, array)"
    rows = "forall(a, 0, i, forall(b, 0, " + nd2 + ", " + cell.format(I="a", J="b") + "))"
    cur = "forall(b, 0, j, " + cell.format(I="i", J="b") + ")"
    acc1 = ("temp == ssum2(arr(array), off(array) + dim2 * factor1 * i + factor2 * j, dim2, factor2, ifactor)")
    acc2 = ("temp == ssum2(arr(array), off(array) + dim2 * factor1 * i + factor2 * j, dim2, factor2, ifactor) + "
            "ssum(arr(array), off(array) + dim2 * factor1 * i + factor2 * j + dim2 * ifactor, 1, ifactor2)")
    c.loops["0:i"] = LoopSpec([("rows", rows), ("len", geom)],
                              end_hints=[("row done", "forall(b, 0, " + nd2 + ", " + cell.format(I="(i - 1)", J="b") + ")")])
    c.loops["1:j"] = LoopSpec([("rows", rows), ("cur", cur), ("len", geom)])
    c.loops["2:ifactor"] = LoopSpec([("rows", rows), ("cur", cur), ("acc", acc1), ("len", geom)])
    c.loops["3:ifactor2"] = LoopSpec([("rows", rows), ("cur", cur), ("acc", acc2), ("len", geom)])
    c.ensure("len", "len(result) == (dim1 // factor1) * (dim2 // factor2)")
    c.ensure("mean", "forall(a, 0, dim1 // factor1, forall(b, 0, " + nd2 + ", " + cell.format(I="a", J="b") + "))")
    reg.add(c)

    # ------------------------------------------------------------------ remove_zerodm
    class F4(Arr):
        label = "f4"

    class U1(Arr):
        label = "u1"
    c = Contract(K + "remove_zerodm", props=["C07"], ghost_params={"B": Int(0), "A0": Int(0)},
                 params={"inarray": Arr("real", None, view=True), "outarray": Arr("real", "f4"),
                         "bpass": Arr("real", "f4"), "chanwts": Arr("real", "f4"), "nchans": Int(), "nsamps": Int()},
                 cases={"outarray": [F4("real", "f4"), U1("int", "u1")]},
                 requires=["nchans >= 0", "nsamps >= 0", "nchans * nsamps <= len(inarray)",
                           "nchans * nsamps <= len(outarray)", "nchans <= len(bpass)", "nchans <= len(chanwts)",
                           "distinct(inarray, outarray, bpass, chanwts)", "off(inarray) == nchans * A0"],
                 modifies=["outarray"])
    val = ("(inarray[nchans * ({t} - B) + {c}] - rsum(arr(inarray), nchans, A0 + {t} - B, nchans) * chanwts[{c}]"
           " + bpass[{c}])")
    # float32 output: the value itself; uint8 output: its truncation when it is representable
    cell = ("(outarray[nchans * ({t} - B) + {c}] == " + val + ") if is_real_array(outarray) else "
            "implies(0 <= " + val + " and " + val + " < 256, outarray[nchans * ({t} - B) + {c}] <= " + val + " and " + val +
            " < outarray[nchans * ({t} - B) + {c}] + 1)")
    rows = "forall(T, B, B + isamp, forall(c, 0, nchans, " + cell.format(t="T", c="c") + "))"
    frame = "forall(k, nchans * {n}, len(outarray), outarray[k] == old(outarray[k]))"
    c.loops["0:isamp"] = LoopSpec([("rows", rows), ("frame", frame.format(n="isamp"))])
    c.loops["1:ichan"] = LoopSpec([("rows", rows), ("frame", frame.format(n="isamp")),
                                   ("zerodm", "zerodm == rsum(arr(inarray), nchans, A0 + isamp, ichan)")])
    c.loops["2:ichan"] = LoopSpec([("rows", rows), ("frame", frame.format(n="(isamp + 1)")),
                                   ("zerodm", "zerodm == rsum(arr(inarray), nchans, A0 + isamp, nchans)"),
                                   ("cur", "forall(c, 0, ichan, " + cell.format(t="(B + isamp)", c="c") + ")"),
                                   ("curframe", "forall(k, nchans * isamp + ichan, nchans * (isamp + 1), "
                                                "outarray[k] == old(outarray[k]))")])
    c.ensure("rows", "forall(T, B, B + nsamps, forall(c, 0, nchans, " + cell.format(t="T", c="c") + "))")
    c.ensure("frame", frame.format(n="nsamps"))
    reg.add(c)
