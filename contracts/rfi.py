"""C16: the channel-mask algebra of RFIMask (sigpyproc/core/rfi.py).

Proved for every number of channels and every list of frequency ranges:
  apply_mask:   user_mask[c]  <=>  some given closed range contains the centre frequency of channel c
                chan_mask[c]  <=>  old(chan_mask[c]) or user_mask[c]
  apply_method: stats_mask[c] <=>  OUT(var)[c] or OUT(skew)[c] or OUT(kurt)[c]   (OUT = the chosen outlier method at
                the mask's threshold: double_mad_mask / iqrm_mask, assumed - float statistics)
                chan_mask[c]  <=>  old(chan_mask[c]) or stats_mask[c]
  apply_funcn:  custom_mask == the callback's result on the current mask; chan_mask[c] <=> old or custom_mask[c]
Each operation only ever adds channels (old(chan_mask[c]) implies chan_mask[c]) and leaves the other component masks
alone.  The client lemma rfimask_union composes them in the order of Filterbank.clean_rfi from an all-false mask: the
final mask is exactly user | stats | custom.  That every sample of a masked channel in the cleaned file equals the
mask value and every other sample is bit-identical, for every gulp, is the apply_channel_mask contract of C07
(contracts/base_writers.py, kernel mask_channels in contracts/kernels_stream.py), listed under C16 as well.
"""
from pvc.contract import Arr, Callback, Const, Contract, Int, LoopSpec, Obj, Opaque, Raises, Real, SeqOf, Str, Tup

RF = "sigpyproc/core/rfi.py::"


def mask_self():
    hdr = Obj("Header", file="sigpyproc/header.py", fields={"nchans": Int(1), "foff": Real(), "fch1": Real()})
    return Obj("RFIMask", file="sigpyproc/core/rfi.py",
               fields={"threshold": Real(), "header": hdr, "chan_var": Arr("real", "f4"), "chan_skew": Arr("real", "f4"),
                       "chan_kurt": Arr("real", "f4"), "chan_mask": Arr("bool", "b1"), "user_mask": Arr("bool", "b1"),
                       "stats_mask": Arr("bool", "b1"), "custom_mask": Arr("bool", "b1")})


RI = ("len(self.chan_mask) == self.header.nchans and len(self.chan_var) == self.header.nchans and "
      "len(self.chan_skew) == self.header.nchans and len(self.chan_kurt) == self.header.nchans")
FREQ = "(c * self.header.foff + self.header.fch1)"
INRANGE = "exists(k, 0, {n}, freq_mask[k][0] <= " + FREQ + " and " + FREQ + " <= freq_mask[k][1])"
MONO = "forall(c, 0, self.header.nchans, implies(old(self.chan_mask[c]), self.chan_mask[c]))"


def register(reg):
    for fn in ("double_mad_mask", "iqrm_mask"):
        c = Contract(RF + fn, props=["C16"], trusted=True,
                     trusted_reason="robust z-score outlier test in floating point (astropy/numpy statistics) outside the "
                                    "subset; assumed: a boolean flag per channel, a deterministic function of the statistic "
                                    "array and the threshold",
                     params={"array": Arr("real", "f4"), "threshold": Real()}, ret=Arr("bool", "b1"),
                     raises=[Raises("ValueError", when="threshold <= 0")])
        c.ensure("shape", "len(result) == len(array)")
        c.ensure("flags", f"forall(c, 0, len(array), result[c] == outlier('{fn}', arr(array), threshold, c))")
        reg.add(c)

    # ---- apply_mask
    c = Contract(RF + "RFIMask.apply_mask", props=["C16"],
                 params={"self": mask_self(), "freq_mask": SeqOf(Tup([Real(), Real()]))},
                 requires=[RI], modifies=["self.user_mask", "self.chan_mask"])
    c.loops["0:freq_range"] = LoopSpec([
        ("shape", "len(user_mask) == self.header.nchans"),
        ("ranges so far", "forall(c, 0, self.header.nchans, user_mask[c] == " + INRANGE.format(n="_k0") + ")")])
    c.ensure("RI", RI)
    c.ensure("user mask", "len(self.user_mask) == self.header.nchans and forall(c, 0, self.header.nchans, "
                          "self.user_mask[c] == " + INRANGE.format(n="len(freq_mask)") + ")")
    c.ensure("union", "forall(c, 0, self.header.nchans, self.chan_mask[c] == (old(self.chan_mask[c]) or self.user_mask[c]))")
    c.ensure("only adds", MONO)
    reg.add(c)

    # ---- apply_method
    c = Contract(RF + "RFIMask.apply_method", props=["C16"],
                 params={"self": mask_self(), "method": Str()}, cases={"method": ["mad", "iqrm"]},
                 lets={"fn": "'double_mad_mask' if method == 'mad' else 'iqrm_mask'"},
                 requires=[RI, "self.threshold > 0"], modifies=["self.stats_mask", "self.chan_mask"])
    c.ensure("RI", RI)
    c.ensure("stats mask", "len(self.stats_mask) == self.header.nchans and forall(c, 0, self.header.nchans, "
                           "self.stats_mask[c] == (outlier(fn, arr(self.chan_var), self.threshold, c) or "
                           "outlier(fn, arr(self.chan_skew), self.threshold, c) or "
                           "outlier(fn, arr(self.chan_kurt), self.threshold, c)))")
    c.ensure("union", "forall(c, 0, self.header.nchans, self.chan_mask[c] == (old(self.chan_mask[c]) or self.stats_mask[c]))")
    c.ensure("only adds", MONO)
    reg.add(c)

    # ---- apply_funcn
    c = Contract(RF + "RFIMask.apply_funcn", props=["C16"],
                 params={"self": mask_self(), "custom_funcn": Callback("bool", "b1")},
                 requires=[RI], modifies=["self.custom_mask", "self.chan_mask"])
    c.ensure("RI", RI)
    c.ensure("union", "len(self.custom_mask) == self.header.nchans and forall(c, 0, self.header.nchans, "
                      "self.chan_mask[c] == (old(self.chan_mask[c]) or self.custom_mask[c]))")
    c.ensure("only adds", MONO)
    reg.add(c)

    # ---- the composition used by Filterbank.clean_rfi, from a fresh (all-false) mask
    CL = "verif:specs/clients.py::"
    mRI = RI.replace("self.", "mask.")
    c = Contract(CL + "rfimask_union", props=["C16"],
                 params={"mask": mask_self(), "freq_mask": SeqOf(Tup([Real(), Real()])), "method": Str(),
                         "custom_funcn": Callback("bool", "b1")},
                 cases={"method": ["mad", "iqrm"]},
                 requires=[mRI, "mask.threshold > 0", "forall(c, 0, mask.header.nchans, not mask.chan_mask[c])"],
                 modifies=["mask.user_mask", "mask.stats_mask", "mask.custom_mask", "mask.chan_mask"])
    c.ensure("union of the three masks", "forall(c, 0, mask.header.nchans, mask.chan_mask[c] == "
                                         "(mask.user_mask[c] or mask.stats_mask[c] or mask.custom_mask[c]))")
    c.ensure("user mask", "forall(c, 0, mask.header.nchans, mask.user_mask[c] == "
             + INRANGE.format(n="len(freq_mask)").replace("self.", "mask.") + ")")
    reg.add(c)
