"""C03: the 12 bit pack/unpack kernels (kernels.py).  Postconditions come from the property statement:
unpacking yields 8/nbits values per byte, each below 2^nbits, most-significant field first for 'big',
least-significant first for 'little'; packing in-range values reproduces the byte."""
from pvc.contract import Arr, Contract, LoopSpec

K = "sigpyproc/core/kernels.py::"
CHAIN = ["C03", "C01", "C02", "C04"]


def shift(nbits, order, j):
    f = 8 // nbits
    return (f - 1 - j) * nbits if order == "big" else j * nbits


def unpack_fields(nbits, order, arr="array", out="unpacked", i="i"):
    f = 8 // nbits
    return " and ".join(f"{out}[{f}*{i}+{j}] == bits({arr}[{i}], {shift(nbits, order, j)}, {nbits})" for j in range(f))


def pack_fields(nbits, order, arr="array", out="packed", i="i"):
    f = 8 // nbits
    inrange = " and ".join(f"bits({arr}[{f}*{i}+{j}], {nbits}, {8 - nbits}) == bv(0)" for j in range(f))
    fields = " and ".join(f"bits({out}[{i}], {shift(nbits, order, j)}, {nbits}) == {arr}[{f}*{i}+{j}]" for j in range(f))
    return f"implies({inrange}, {fields})"


def register(reg):
    for nbits in (1, 2, 4):
        f = 8 // nbits
        for order in ("big", "little"):
            # ---- unpack
            c = Contract(K + f"unpack{nbits}_8_{order}", props=CHAIN,
                         params={"array": Arr("bv8", "u1"), "unpacked": Arr("bv8", "u1")},
                         requires=[f"len(unpacked) == {f}*len(array)", "distinct(array, unpacked)"],
                         modifies=["unpacked"])
            body = unpack_fields(nbits, order)
            c.loops["0:ii"] = LoopSpec([("fields", f"forall(i, 0, ii, {body})")])
            c.ensure("fields", f"forall(i, 0, len(array), {body})")
            # every value below 2^nbits (the property names it)
            rng = " and ".join(f"bits(unpacked[{f}*i+{j}], {nbits}, {8 - nbits}) == bv(0)" for j in range(f))
            c.ensure("range", f"forall(i, 0, len(array), {rng})")
            reg.add(c)
            # ---- pack
            c = Contract(K + f"pack{nbits}_8_{order}", props=CHAIN,
                         params={"array": Arr("bv8", "u1"), "packed": Arr("bv8", "u1")},
                         requires=[f"len(array) >= {f}*len(packed)", "distinct(array, packed)"],
                         modifies=["packed"])
            body = pack_fields(nbits, order)
            c.loops["0:ii"] = LoopSpec([("fields", f"forall(i, 0, ii, {body})")])
            c.ensure("fields", f"forall(i, 0, len(packed), {body})")
            reg.add(c)
