"""Sidecar contracts for sigpyproc (keyed by file::qualname; loops by source-order ordinal + variable)."""
from pvc.contract import Registry

MODULES = ["lemmas", "kernels_bits", "bits", "kernels_stream", "kernels_moments", "race", "fileio", "readers", "base", "writer", "base_writers", "readblock", "kernels_roll", "moments", "fold", "folded", "pfits", "stats_filters", "rfi", "sigproc_codec", "fft_lengths", "matched", "zscore", "dmdelays"]


def load_all():
    import importlib
    reg = Registry()
    for m in MODULES:
        mod = importlib.import_module("contracts." + m)
        mod.register(reg)
    return reg


def configure(v):
    v.inline_classes |= {"sigpyproc/timeseries.py::TimeSeries", "sigpyproc/io/fileio.py::FileWriter",
                         "sigpyproc/io/bits.py::BitsInfo", "sigpyproc/block.py::FilterbankBlock",
                         "sigpyproc/fourierseries.py::FourierSeries"}
    v.inline_ok |= {"sigpyproc/io/fileio.py::FileBase.__init__", "sigpyproc/io/fileio.py::FileWriter.write"}
    """Functions that are executed symbolically at the call site (tiny, pure, real bodies)."""
    v.inline_ok |= {"sigpyproc/core/kernels.py::update_moments", "sigpyproc/core/kernels.py::update_moments_basic",
                    "sigpyproc/io/fileio.py::FileBase._close_current",
                    "sigpyproc/timeseries.py::TimeSeries._check_input",
                    "sigpyproc/block.py::BaseBlock.__init__", "sigpyproc/block.py::BaseBlock._check_input",
                    "sigpyproc/fourierseries.py::FourierSeries._check_input"}
