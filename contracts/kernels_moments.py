"""Online moments kernels (C10, C19)."""
from pvc.contract import Arr, Contract, Int, LoopSpec, Real, RecArr

K = "sigpyproc/core/kernels.py::"
# counts are modelled as mathematical integers (assumption: below 2^31)
MOM = {"count": ("int", None), "m1": ("real", "f4"), "m2": ("real", "f4"), "m3": ("real", "f4"),
       "m4": ("real", "f4"), "min": ("real", "f4"), "max": ("real", "f4")}


def register(reg):
    for name in ("compute_online_moments", "compute_online_moments_basic"):
        c = Contract(K + name, props=["C10"],
                     params={"array": Arr("real", None, view=True), "moments": RecArr(dict(MOM)), "startflag": Int()},
                     requires=["len(moments) >= 1", "len(array) >= len(moments)",
                               "forall(c, 0, len(moments), moments['count'][c] >= 0)"],
                     modifies=["moments"],
                     # the scalar update is executed symbolically here (its own contract lives in contracts/moments.py)
                     inline_calls=[K + "update_moments", K + "update_moments_basic"])
        nonneg = "forall(c, 0, len(moments), moments['count'][c] >= 0)"
        c.loops["0:ichan"] = LoopSpec([("counts", nonneg)])
        c.loops["1:ichan"] = LoopSpec([("counts", nonneg)])
        c.loops["2:isamp"] = LoopSpec([("counts", nonneg), ("count", "count >= 0")])
        c.ensure("counts", nonneg)
        reg.add(c)
