"""Online moments kernels (C10, C06, C19): count, minimum and maximum are exact for every block sequence."""
from pvc.contract import Arr, Contract, Int, LoopSpec, Real, RecArr

K = "sigpyproc/core/kernels.py::"
# counts are modelled as mathematical integers (assumption: below 2^31)
MOM = {"count": ("int", None), "m1": ("real", "f4"), "m2": ("real", "f4"), "m3": ("real", "f4"),
       "m4": ("real", "f4"), "min": ("real", "f4"), "max": ("real", "f4")}


def minmax_clauses(n, chan, mn, mx, nch="len(moments)"):
    """(min, max) of channel `chan` after the first n samples of the block: lower/upper bound of every sample seen and of
    the carried value when continuing (startflag != 0), and attained by one of them - i.e. exactly
    min(old if continuing, samples), without a recursive spec function."""
    samp = f"array[t * {nch} + {chan}]"
    return [
        ("min bounds the block", f"forall(t, 0, {n}, {mn} <= {samp})"),
        ("max bounds the block", f"forall(t, 0, {n}, {mx} >= {samp})"),
        ("min continues", f"implies(startflag != 0, {mn} <= old(moments['min'][{chan}]))"),
        ("max continues", f"implies(startflag != 0, {mx} >= old(moments['max'][{chan}]))"),
        ("min attained", f"(startflag != 0 and {mn} == old(moments['min'][{chan}])) or "
                         f"(startflag == 0 and {mn} == array[{chan}]) or exists(t, 0, {n}, {mn} == {samp})"),
        ("max attained", f"(startflag != 0 and {mx} == old(moments['max'][{chan}])) or "
                         f"(startflag == 0 and {mx} == array[{chan}]) or exists(t, 0, {n}, {mx} == {samp})"),
    ]


def register(reg):
    for name in ("compute_online_moments", "compute_online_moments_basic"):
        c = Contract(K + name, props=["C10", "C06"],
                     params={"array": Arr("real", None, view=True), "moments": RecArr(dict(MOM)), "startflag": Int()},
                     lets={"NB": "len(array) // len(moments)"},
                     requires=["len(moments) >= 1", "len(array) >= len(moments)",
                               "forall(c, 0, len(moments), moments['count'][c] >= 0)"],
                     modifies=["moments"],
                     # the scalar update is executed symbolically here (its own contract lives in contracts/moments.py)
                     inline_calls=[K + "update_moments", K + "update_moments_basic"])
        nonneg = "forall(c, 0, len(moments), moments['count'][c] >= 0)"
        seeded = ("forall(c, {lo}, len(moments), moments['count'][c] == old(moments['count'][c]) and "
                  "moments['min'][c] == (array[c] if startflag == 0 else old(moments['min'][c])) and "
                  "moments['max'][c] == (array[c] if startflag == 0 else old(moments['max'][c])))")
        def done(hi):
            cl = " and ".join("(" + t + ")" for _, t in minmax_clauses("NB", "c", "moments['min'][c]", "moments['max'][c]"))
            return f"forall(c, 0, {hi}, moments['count'][c] == old(moments['count'][c]) + NB and {cl})"
        c.loops["0:ichan"] = LoopSpec([
            ("counts", nonneg),
            ("seeded so far", "forall(c, 0, ichan, moments['min'][c] == array[c] and moments['max'][c] == array[c])"),
            ("rest untouched", "forall(c, ichan, len(moments), moments['min'][c] == old(moments['min'][c]) and "
                               "moments['max'][c] == old(moments['max'][c]))"),
            ("count untouched", "forall(c, 0, len(moments), moments['count'][c] == old(moments['count'][c]))")])
        c.loops["1:ichan"] = LoopSpec([("counts", nonneg), ("done", done("ichan")), ("todo", seeded.format(lo="ichan"))])
        c.loops["2:isamp"] = LoopSpec([("counts", nonneg), ("count", "count == old(moments['count'][ichan]) + isamp"),
                                       ("done", done("ichan")), ("todo", seeded.format(lo="ichan"))]
                                      + minmax_clauses("isamp", "ichan", "min_val", "max_val"))
        c.ensure("counts", nonneg)
        c.ensure("count", "forall(c, 0, len(moments), moments['count'][c] == old(moments['count'][c]) + NB)")
        for nm, t in minmax_clauses("NB", "c", "moments['min'][c]", "moments['max'][c]"):
            c.ensure(nm, f"forall(c, 0, len(moments), {t})")
        reg.add(c)


def register_push(reg):
    """ChannelStats.push_data verified against the two kernels' contracts: the block's time index reaches the kernel as its
    start flag (so only the first block seeds min/max) in BOTH modes, and the same accumulator is updated."""
    from pvc.contract import Obj, Str
    ST = "sigpyproc/core/stats.py::"
    bag = Obj("ChannelStats", file="sigpyproc/core/stats.py", fields={"_moments": RecArr(dict(MOM))})
    c = Contract(ST + "ChannelStats.push_data#body", props=["C10", "C06"],
                 params={"self": bag, "array": Arr("real", None, view=True), "start_index": Int(), "mode": Str()},
                 cases={"mode": ["basic", "full"]},
                 lets={"NB": "len(array) // len(self._moments)"},
                 requires=["len(self._moments) >= 1", "len(array) >= len(self._moments)",
                           "forall(c, 0, len(self._moments), self._moments['count'][c] >= 0)"],
                 modifies=["self._moments"])
    fix = lambda t: t.replace("moments", "self._moments").replace("startflag", "start_index")  # noqa: E731
    c.ensure("count", fix("forall(c, 0, len(moments), moments['count'][c] == old(moments['count'][c]) + NB)"))
    for nm, t in minmax_clauses("NB", "c", "moments['min'][c]", "moments['max'][c]"):
        c.ensure(nm + " (start flag is the block's time index)", fix(f"forall(c, 0, len(moments), {t})"))
    reg.add(c)


_r_km = register


def register(reg):  # noqa: F811
    _r_km(reg)
    register_push(reg)
