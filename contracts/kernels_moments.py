"""Online moments kernels (C10, C19)."""
from pvc.contract import Arr, Contract, Int, LoopSpec, Real, RecArr

K = "sigpyproc/core/kernels.py::"
MOM = {"count": ("int", "i4"), "m1": ("real", "f4"), "m2": ("real", "f4"), "m3": ("real", "f4"),
       "m4": ("real", "f4"), "min": ("real", "f4"), "max": ("real", "f4")}


def register(reg):
    for name in ("compute_online_moments", "compute_online_moments_basic"):
        c = Contract(K + name, props=["C10"],
                     params={"array": Arr("real", None, view=True), "moments": RecArr(dict(MOM)), "startflag": Int()},
                     requires=["len(moments) >= 1", "len(array) >= len(moments)"],
                     modifies=["moments"])
        reg.add(c)
