"""C06: streaming reductions of base.py::Filterbank, proved against the read_plan yield contract.

The right-hand sides never mention the gulp: that is the statement "independent of the gulp size".
XS() is the ghost flat array of unpacked samples of the stream (sample t, channel c at t*nchans + c).
"""
from pvc.contract import Arr, Bool, Const, Contract, Int, LoopSpec, Obj, Opaque, Raises, Real
from pvc.values import VDict
from contracts.readers import header_obj

B = "sigpyproc/base.py::"
H = "sigpyproc/header.py::"
HDR_EXTRA = {"tsamp": Real(), "tstart": Real(), "fch1": Real(), "foff": Real(), "dm": Real(), "nbits": Int()}


class NoneV(Const):
    label = "None"


class IntV(Int):
    label = "int"


def timeseries_ret():
    return Obj("TimeSeries", file="sigpyproc/timeseries.py",
               fields={"_data": Arr("real", "f4"), "_header": header_obj(None, HDR_EXTRA)})


def consumer_self():
    return Obj("FilReader", file="sigpyproc/readers.py", fields={"_header": header_obj(None, HDR_EXTRA)})


T0 = "self._header.tstart + start * self._header.tsamp / 86400"
RANGE = ["gulp >= 1", "start >= 0", "N >= 1", "start + N <= self._header.nsamples"]
LETS = {"N": "self._header.nsamples - start if is_none(nsamps) else nsamps", "nchans": "self._header.nchans"}
COMMON = dict(cases={"nsamps": [NoneV(None), IntV()]})


def params(**extra):
    p = {"self": consumer_self(), "gulp": Int(), "start": Int(), "nsamps": Int(), "plan_kwargs": Const(VDict({}))}
    p.update(extra)
    return p


def register(reg):
    # ---- Header.get_dmdelays: assumed here (proved/validated in C09); domain: non-negative delays
    c = Contract(H + "Header.get_dmdelays", props=["C06", "C07", "C11"], trusted=True,
                 trusted_reason="delay law checked in C09; here only: one int32 delay per channel, and the domain "
                                "restriction of the property (all delays >= 0, i.e. reference = highest frequency, dm >= 0)",
                 params={"self": header_obj(None, HDR_EXTRA), "dm": Real(), "ref_freq": Opaque(), "in_samples": Opaque()},
                 ret=Arr("int", "i4"))
    c.ensure("shape", "len(result) == self.nchans and contents_are(result, DLY())")
    c.ensure("ghost", "forall(c, 0, self.nchans, result[c] == DLY(c) and 0 <= DLY(c) and DLY(c) <= MAXD())")
    c.ensure("max attained", "0 <= DWIT() and DWIT() < self.nchans and DLY(DWIT()) == MAXD()")
    reg.add(c)

    # ---- collapse
    done = "(N if _k0 == bK else boff(_k0))"
    row = "tim_ar[t] == rsum(XS(), nchans, start + t, nchans)"
    c = Contract(no_unfold=True, key=B + "Filterbank.collapse", props=["C06"], params=params(), lets=LETS, requires=RANGE,
                 ghost_args={"extract_tim": {"B": "start + boff(_k0)"}}, **COMMON)
    c.loops["0:nsamps_r_ii_data"] = LoopSpec([
        ("done", f"forall(t, 0, {done}, {row})"),
        ("rest", f"len(tim_ar) == N and forall(t, {done}, len(tim_ar), tim_ar[t] == 0)")],
        body_hints=[("output index", "ii * gulp == boff(_k0)")])
    c.ensure("length", "len(result.data) == N")
    c.ensure("row sums", "forall(t, 0, N, result.data[t] == rsum(XS(), nchans, start + t, nchans))")
    c.props.append("C08")
    c.ensure("hdr:shape", "result.header.nsamples == N and result.header.nchans == 1")
    c.ensure("hdr:time", f"result.header.tsamp == self._header.tsamp and result.header.tstart == {T0}")
    c.ensure("hdr:dm", "result.header.dm == 0")
    reg.add(c)

    # ---- bandpass
    done = "(N if _k0 == bK else boff(_k0))"
    c = Contract(no_unfold=True, key=B + "Filterbank.bandpass", props=["C06", "C07"], params=params(), lets=LETS, requires=RANGE,
                 ret=timeseries_ret(),
                 ghost_args={"extract_bpass": {"B": "start + boff(_k0)"}}, **COMMON)
    c.loops["0:nsamps_r___data"] = LoopSpec([
        ("colsums", f"len(bpass_ar) == nchans and forall(c, 0, nchans, bpass_ar[c] == colsum(XS(), nchans, c, start, {done}))"),
        ("count", f"num_samples == {done}")],
        body_hints=[("split", "forall(c, 0, nchans, lemma_colsum_split(XS(), nchans, c, start, boff(_k0), bn(_k0)))")])
    c.ensure("length", "len(result.data) == nchans")
    c.ensure("channel means", "forall(c, 0, nchans, result.data[c] == colsum(XS(), nchans, c, start, N) / N)")
    c.props.append("C08")
    c.ensure("hdr:shape", "result.header.nsamples == nchans and result.header.nchans == 1")
    reg.add(c)

    # ---- read_chan
    done = "(N if _k0 == bK else boff(_k0))"
    c = Contract(no_unfold=True, key=B + "Filterbank.read_chan", props=["C06"], params=params(ichan=Int()), lets=LETS, requires=RANGE,
                 raises=[Raises("ValueError", when="ichan >= self._header.nchans or ichan < 0")], **COMMON)
    c.loops["0:nsamps_r_ii_data"] = LoopSpec([
        ("done", f"len(tim_ar) == N and forall(t, 0, {done}, tim_ar[t] == XS((start + t) * nchans + ichan))")])
    c.ensure("length", "len(result.data) == N")
    c.ensure("column", "forall(t, 0, N, result.data[t] == XS((start + t) * nchans + ichan))")
    c.props.append("C08")
    c.ensure("hdr:shape", "result.header.nsamples == N and result.header.nchans == 1")
    c.ensure("hdr:time", f"result.header.tsamp == self._header.tsamp and result.header.tstart == {T0}")
    reg.add(c)

    # ---- dedisperse
    done = "(N - max_delay if _k0 == bK else boff(_k0))"
    cell = "tim_ar[t] == dsum(XS(), nchans, start + t, DLY(), nchans)"
    c = Contract(no_unfold=True, key=B + "Filterbank.dedisperse", props=["C06", "C09"], params=params(dm=Real()), lets=LETS,
                 requires=RANGE, ghost_args={"dedisperse": {"B": "start + boff(_k0)"}}, **COMMON)
    # domain of the property: 0 <= maxdelay < nsamps
    c.loops["0:nsamps_r_ii_data"] = LoopSpec([
        ("done", f"forall(t, 0, {done}, {cell})"),
        ("rest", f"len(tim_ar) == N - max_delay and forall(t, {done}, len(tim_ar), tim_ar[t] == 0)"),
        ("delays", "max_delay == MAXD() and len(chan_delays) == nchans and "
                   "forall(c, 0, nchans, chan_delays[c] == DLY(c) and 0 <= DLY(c) and DLY(c) <= MAXD())")],
        body_hints=[("output index", "ii * (gulp - max_delay) == boff(_k0)")])
    c.requires = RANGE + ["MAXD() < N"]
    c.ensure("length", "len(result.data) == N - MAXD()")
    c.ensure("dedispersed sums", "forall(t, 0, N - MAXD(), result.data[t] == "
                                 "dsum(XS(), nchans, start + t, DLY(), nchans))")
    c.props.append("C08")
    c.ensure("hdr:shape", "result.header.nsamples == N - MAXD() and result.header.nchans == 1")
    c.ensure("hdr:time", f"result.header.tsamp == self._header.tsamp and result.header.tstart == {T0}")
    c.ensure("hdr:dm", "result.header.dm == dm")
    reg.add(c)


def register_stats(reg):
    """compute_stats / compute_stats_basic: the accumulator is created for exactly the samples that are then pushed."""
    ST = "sigpyproc/core/stats.py::"
    bag = Obj("ChannelStats", file="sigpyproc/core/stats.py", fields={"_nchans": Int(1), "_nsamps": Int(), "pushed": Int(0)})
    c = Contract(ST + "ChannelStats.push_data", props=["C06", "C10"], trusted=True,
                 trusted_reason="call-site view of the accumulator: the kernels behind it are under contract in C10 "
                                "(compute_online_moments*); here only the bookkeeping - a block of whole samples is added, "
                                "and the first block (start_index == 0) is the one that initialises min/max",
                 params={"self": bag, "array": Arr("real", None, view=True), "start_index": Int(), "mode": Opaque()},
                 ghost_params={"nb": Int(0)},
                 requires=["len(array) == nb * self._nchans", "(start_index == 0) == (self.pushed == 0)"],
                 modifies=["self.pushed"])
    c.ensure("pushed", "self.pushed == old(self.pushed) + nb")
    reg.add(c)
    done = "(N if _k0 == bK else boff(_k0))"
    for name in ("compute_stats", "compute_stats_basic"):
        c = Contract(no_unfold=True, key=B + "Filterbank." + name, props=["C06", "C10"], params=params(), lets=LETS,
                     requires=RANGE, modifies=["self._chan_stats"], ghost_args={"ChannelStats.push_data": {"nb": "bn(_k0)"}}, **COMMON)
        c.loops["0:__ii_data"] = LoopSpec([
            ("accumulator", f"bag._nchans == nchans and bag._nsamps == N and bag.pushed == {done}")])
        c.ensure("normalised by the samples read", "self._chan_stats._nsamps == N")
        c.ensure("every sample pushed once", "self._chan_stats.pushed == N")
        reg.add(c)


_r_base = register


def register(reg):  # noqa: F811
    _r_base(reg)
    register_stats(reg)
