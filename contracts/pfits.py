"""C18: PFITSReader.read_plan against the same yield contract as FilReader.read_plan (contracts/readers.py).

Ghost: PX(i) = sample i (time-major, descending-frequency channel order, scales/offsets/weights applied) of the
whole-file read.  PFITSFile.read_subints is ASSUMED (astropy FITS table access, outside the subset):
read_subints(s, n) returns the (n*S, nchans) array whose row r is samples [(s*S + r)*nchans, ... + nchans) of PX,
for 0 <= s, 1 <= n, s + n <= NSUB (S = samples per sub-integration).  Proved from it, for every gulp, start,
nsamps, skipback and every S (aligned or not): the read_plan clauses count / index / in-range / overlap / content /
coverage, i.e. exactly the clauses the streaming consumers of base.py (C06, C07, C08) were proved against -- so those
reductions over a PSRFITS reader equal the reductions over the sample sequence PX, as over a SIGPROC file holding it.
Also proved: every read_subints call stays inside the table (startsub + nsubs <= NSUB).
"""
from pvc.contract import Arr, Arr2, Const, Contract, Int, LoopSpec, Obj, Opaque, Raises, Real

R = "sigpyproc/readers.py::"
PF = "sigpyproc/io/pfits.py::"


def pfits_file():
    sub = Obj("SubintHdr", fields={"subint_samples": Int(1), "nsubint": Int(0)})
    return Obj("PFITSFile", file="sigpyproc/io/pfits.py", fields={"_subint_hdr": sub, "_nchans": Int(1)})


def pfits_self():
    hdr = Obj("Header", file="sigpyproc/header.py", fields={"nchans": Int(1), "nsamples": Int(0)})
    return Obj("PFITSReader", file="sigpyproc/readers.py", fields={"_header": hdr, "_fitsfile": pfits_file()})


def register(reg):
    c = Contract(PF + "PFITSFile.read_subints", props=["C18"], trusted=True,
                 trusted_reason="astropy FITS table access, unpacking, scales/offsets/weights and the frequency flip are "
                                "outside the subset (checked by the bounded driver against an independent PSRFITS decoder); "
                                "assumed: rows [startsub*S, (startsub+nsubs)*S) of the whole-file sample matrix PX",
                 params={"self": pfits_file(), "startsub": Int(), "nsubs": Int()}, ret=Arr2("real", "f4"),
                 requires=["startsub >= 0", "nsubs >= 1", "startsub + nsubs <= self._subint_hdr.nsubint"])
    c.ensure("shape", "result.shape[0] == nsubs * self._subint_hdr.subint_samples and result.shape[1] == self._nchans")
    # flat (row-major) form: element k of the returned matrix is sample startsub*S*nchans + k of the file
    c.ensure("contents", "forall(k, 0, nsubs * self._subint_hdr.subint_samples * self._nchans, "
                         "result.ravel()[k] == PX(startsub * self._subint_hdr.subint_samples * self._nchans + k))")
    reg.add(c)

    class NoneV(Const):
        label = "None"

    class IntV(Int):
        label = "int"
    c = Contract(R + "PFITSReader.read_plan", props=["C18"],
                 params={"self": pfits_self(), "gulp": Int(), "start": Int(), "nsamps": Int(), "skipback": Int(),
                         "description": Const(None), "quiet": Const(False), "allocator": Const(None)},
                 cases={"nsamps": [NoneV(None), IntV()]},
                 lets={"N": "self._header.nsamples - start if is_none(nsamps) else nsamps",
                       "S": "skipback if skipback >= 0 else -skipback",
                       "G": "(gulp if gulp <= N else N)", "SB": "self._fitsfile._subint_hdr.subint_samples"},
                 requires=["self._fitsfile._nchans == self._header.nchans",
                           # the file can be read in full: the sample count does not exceed the table
                           "self._header.nsamples <= SB * self._fitsfile._subint_hdr.nsubint",
                           "gulp >= 1", "start >= 0", "N >= 1", "start + N <= self._header.nsamples"],
                 modifies=[],
                 ghost_init={"goff": "0", "_nyield": "0"},
                 yield_ghost={"goff": "goff + yielded[0] - S", "_nyield": "_nyield + 1"},
                 raises=[Raises("ValueError", when="S >= G")])
    c.yields = [
        ("count", "yielded[0] * self._header.nchans == len(yielded[2]) and 0 <= yielded[0] and yielded[0] <= G "
                  "and yielded[0] <= gulp", "P"),
        ("index", "yielded[1] == _nyield", "P"),
        ("in-range", "goff >= 0 and goff + yielded[0] <= N", "P"),
        ("overlap", "implies(_nyield >= 1, yielded[0] >= S)", "P"),
        ("content", "forall(j, 0, len(yielded[2]), yielded[2][j] == PX((old(start) + goff) * self._header.nchans + j))", "P"),
        ("H:offset", "goff == _nyield * (G - S)", "H"),
        ("H:gulp", "implies(_nyield >= 1, G == old(gulp))", "H"),
    ]
    c.end = [("coverage", "goff + S == N", "P")]
    c.loops["0:ii_block_skip"] = LoopSpec([
        ("ghost", "_nyield == _k0 and implies(_k0 < len(blocks), goff == _k0 * (gulp - skipback)) and "
                  "implies(_k0 == len(blocks), goff + skipback == nsamps)"),
        ("plan", "len(blocks) >= 1 and gulp == G and skipback == S and nsamps == N and S < G"),
        ("position", "implies(_k0 < len(blocks), start == old(start) + goff)"),
    ])
    reg.add(c)

    # ---- PFITSReader.read_block: every in-range request, aligned to sub-integrations or not
    from pvc.contract import Bool  # noqa: F401
    EXTRA = {"tsamp": Real(), "tstart": Real(), "fch1": Real(), "foff": Real(), "dm": Real()}
    hdr = Obj("Header", file="sigpyproc/header.py", fields=dict({"nchans": Int(1), "nsamples": Int(0), "nbits": Int()}, **EXTRA))
    me = Obj("PFITSReader", file="sigpyproc/readers.py", fields={"_header": hdr, "_fitsfile": pfits_file()})

    class RealV(Real):
        label = "freq"
    c = Contract(R + "PFITSReader.read_block", props=["C18"], float_err=True,
                 params={"self": me, "start": Int(), "nsamps": Int(), "fch1": Real(), "nchans": Int()},
                 cases={"fch1": [NoneV(None), RealV()], "nchans": [NoneV(None), IntV()]},
                 ghost_params={"kch": Int(0)},
                 lets={"NC": "self._header.nchans", "SB": "self._fitsfile._subint_hdr.subint_samples",
                       "k": "0 if is_none(fch1) else kch", "ncsel": "self._header.nchans if is_none(nchans) else nchans"},
                 requires=["self._fitsfile._nchans == self._header.nchans",
                           "self._header.nsamples <= SB * self._fitsfile._subint_hdr.nsubint",
                           "nsamps >= 1",
                           "self._header.foff <= -0.001 and self._header.foff >= -1000",
                           "self._header.fch1 >= 1 and self._header.fch1 <= 100000", "kch <= 100000",
                           # a channel range that leaves the band is not excluded: it must be refused (raises)
                           "ncsel >= 1 and k <= self._header.nchans"],
                 case_requires={("fch1", "freq"): ["kch >= 1", "fch1 == fl(self._header.fch1 + fl(kch * self._header.foff))"]},
                 modifies=[],
                 after_assign={"chan_start": [("nearest channel", "chan_start == k")]},
                 raises=[Raises("ValueError", when="start < 0 or start + nsamps > self._header.nsamples or "
                                                   "k + ncsel > self._header.nchans")],
                 ret=Opaque())
    c.ensure("shape", "result.data.shape[0] == ncsel and result.data.shape[1] == nsamps")
    c.ensure("samples", "forall(c, 0, ncsel, forall(t, 0, nsamps, result.data[c, t] == PX((start + t) * NC + k + c)))")
    c.ensure("header", "result.header.nsamples == nsamps and result.header.nchans == ncsel")
    c.ensure("header tstart", "result.header.tstart == self._header.tstart + start * self._header.tsamp / 86400")
    c.ensure("header fch1", "result.header.fch1 == (self._header.fch1 if is_none(fch1) else fch1)")
    reg.add(c)
