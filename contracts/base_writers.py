"""C07 / C20 (and C08's header updates): streaming file-to-file transforms of base.py::Filterbank.

`out_file.usamples` is the sequence of samples appended to the output file so far (pvc/wrmodel.py); every clause is
stated over the absolute output index i, and the right-hand sides mention XS (the input samples) but never the gulp.
Typestate clauses (C20): one header write, before any data; no repositioning; data appended in block order.
"""
from pvc.contract import Arr, Bool, Const, Contract, Int, LoopSpec, Obj, Opaque, Raises, Real
from pvc.values import VDict
from contracts.base import B, COMMON, LETS, RANGE, IntV, NoneV, consumer_self, params

DEPTHS = [1, 2, 4, 8, 16, 32]
# one output sample is a whole number of bytes: for packed depths nchans is *defined* as (8/nbits)*ncq
PACKED_DEFS = {("self._header.nbits", "1"): [("self._header.nchans", "8 * ncq")],
               ("self._header.nbits", "2"): [("self._header.nchans", "4 * ncq")],
               ("self._header.nbits", "4"): [("self._header.nchans", "2 * ncq")]}
NCQ = {"ncq": Int(1)}
CASES = {"self._header.nbits": DEPTHS, "nsamps": [NoneV(None), IntV()]}
TYPESTATE = ("{w}.file_obj.hdr_writes == 1 and not {w}.file_obj.hdr_after_data and {w}.file_obj.seeks == 0")


def wparams(**extra):
    p = params(outfile_name=Opaque())
    p.update(extra)
    return p


def register(reg):
    done = "(N if _k0 == bK else boff(_k0))"

    # ---- extract_samps: the selected rows, bit-exact
    c = Contract(no_unfold=True, key=B + "Filterbank.extract_samps", props=["C07", "C20"],
                 params={"self": consumer_self(), "start": Int(), "nsamps": Int(), "outfile_name": Opaque(),
                         "gulp": Int(), "plan_kwargs": Const(VDict({}))},
                 cases={"self._header.nbits": DEPTHS}, ghost_params=dict(NCQ), case_defs=dict(PACKED_DEFS),
                 lets={"N": "nsamps", "nchans": "self._header.nchans"},
                 requires=["gulp >= 1", "nsamps >= 1", "self._header.nchans >= 1"],
                 raises=[Raises("ValueError", when="start < 0 or start + nsamps > self._header.nsamples")])
    c.loops["0:____data"] = LoopSpec([
        ("written", f"len(out_file.usamples) == {done} * nchans and "
                    f"forall(i, 0, {done} * nchans, out_file.usamples[i] == XS(start * nchans + i))"),
        ("typestate", TYPESTATE.format(w="out_file"))])
    c.ensure("data", "len(out_file.usamples) == N * nchans and "
                     "forall(i, 0, N * nchans, out_file.usamples[i] == XS(start * nchans + i))")
    c.ensure("typestate", TYPESTATE.format(w="out_file"))
    c.props.append("C08")
    c.ensure("hdr:time", "out_file.out_header.tsamp == self._header.tsamp and out_file.out_header.tstart == self._header.tstart + start * self._header.tsamp / 86400")
    c.ensure("hdr:channels", "out_file.out_header.nchans == self._header.nchans and out_file.out_header.nbits == self._header.nbits and "
                             "out_file.out_header.fch1 == self._header.fch1 and out_file.out_header.foff == self._header.foff")
    c.ensure("depth", "out_file.bitsinfo.nbits == self._header.nbits")
    reg.add(c)

    # ---- invert_freq: each row reversed, bit-exact
    def rows(n, rhs):
        return (f"len(out_file.usamples) == {n} * nchans and forall(t, 0, {n}, forall(c, 0, nchans, "
                f"out_file.usamples[nchans * t + c] == {rhs}))")
    def prefix(rhs):
        return (f"forall(t, 0, boff(_k0 - 1), forall(c, 0, nchans, out_file.usamples[nchans * t + c] == {rhs}))")
    rev = "XS((start + t) * nchans + (nchans - 1 - c))"
    c = Contract(no_unfold=True, key=B + "Filterbank.invert_freq", props=["C07", "C20"], params=wparams(), lets=LETS, cases=dict(CASES),
                 ghost_args={"invert_freq": {"B": "boff(_k0)", "LO": "0", "HI": "2 ** self._header.nbits - 1",
                                            "CHK": "self._header.nbits < 8"}},
                 ghost_params=dict(NCQ), case_defs=dict(PACKED_DEFS),
                 requires=RANGE)
    appended = ("forall(T, boff(_k0 - 1), boff(_k0 - 1) + bn(_k0 - 1), forall(c, 0, nchans, "
                "out_file.usamples[nchans * T + c] == {blk}[nchans * (T - boff(_k0 - 1)) + c]))")
    c.loops["0:nsamps_r___data"] = LoopSpec([("written", rows(done, rev)), ("typestate", TYPESTATE.format(w="out_file"))],
                                            end_hints=[("appended", appended.format(blk="out_ar")),
                                                       ("prefix", prefix(rev))])
    c.ensure("data", rows("N", rev))
    c.ensure("typestate", TYPESTATE.format(w="out_file"))
    c.props.append("C08")
    c.ensure("hdr:time", "out_file.out_header.tsamp == self._header.tsamp and out_file.out_header.tstart == self._header.tstart + start * self._header.tsamp / 86400")
    c.ensure("hdr:channels", "out_file.out_header.nchans == self._header.nchans and out_file.out_header.nbits == self._header.nbits and "
                             "out_file.out_header.fch1 == self._header.fch1 + (self._header.nchans - 1) * self._header.foff and "
                             "out_file.out_header.foff == -self._header.foff")
    c.ensure("depth", "out_file.bitsinfo.nbits == self._header.nbits")
    reg.add(c)

    # ---- apply_channel_mask: masked columns constant, everything else bit-identical
    msk = "(mask_value if chan_mask[c] else XS((start + t) * nchans + c))"
    c = Contract(no_unfold=True, key=B + "Filterbank.apply_channel_mask", props=["C07", "C16", "C20"],
                 params=wparams(chan_mask=Arr("bool", "b1"), mask_value=Real()), lets=LETS, cases=dict(CASES),
                 gen_copy=True, ghost_args={"mask_channels": {"B": "boff(_k0)"}}, ghost_params=dict(NCQ),
                 case_defs=dict(PACKED_DEFS),
                 requires=RANGE + ["len(chan_mask) == self._header.nchans",
                                   # the mask value must be representable at the file's depth
                                   "implies(self._header.nbits <= 16, mask_value >= 0 and mask_value < 2 ** self._header.nbits "
                                   "and mask_value == real(int(mask_value)))"])
    c.loops["0:nsamps_r__ii_data"] = LoopSpec([("written", rows(done, msk)), ("typestate", TYPESTATE.format(w="out_file")),
                                               ("mask", "len(mask) == nchans and forall(c, 0, nchans, mask[c] == chan_mask[c])")],
                                              end_hints=[("appended", appended.format(blk="data")), ("prefix", prefix(msk))])
    c.ensure("data", rows("N", msk))
    c.ensure("typestate", TYPESTATE.format(w="out_file"))
    c.props.append("C08")
    c.ensure("hdr:time", "out_file.out_header.tsamp == self._header.tsamp and out_file.out_header.tstart == self._header.tstart + start * self._header.tsamp / 86400")
    c.ensure("hdr:channels", "out_file.out_header.nchans == self._header.nchans and out_file.out_header.nbits == self._header.nbits and "
                             "out_file.out_header.fch1 == self._header.fch1 and out_file.out_header.foff == self._header.foff")
    c.ensure("depth", "out_file.bitsinfo.nbits == self._header.nbits")
    reg.add(c)

    # ---- subband: per-sub-band sums of delay-shifted channels for t < nsamps - maxdelay, written as float32
    sdone = "(N - MAXD() if _k0 == bK else boff(_k0))"
    sval = "dsel(XS(), nchans, start + T, DLY(), arr(chan_to_sub), s, nchans)"

    def srows(n):
        return (f"len(out_file.usamples) == {n} * nsub and forall(T, 0, {n}, forall(s, 0, nsub, "
                f"out_file.usamples[nsub * T + s] == {sval}))")
    # the input depth only fixes the dtype of the block, which sub-banding (float32 sums) never looks at
    c = Contract(no_unfold=True, key=B + "Filterbank.subband", props=["C07", "C20"], params=wparams(dm=Real(), nsub=Int()), lets=LETS,
                 cases={"self._header.nbits": [8, 32], "nsamps": [NoneV(None), IntV()]}, ghost_args={"subband": {"B": "boff(_k0)", "A0": "start + boff(_k0)"}},
                 requires=RANGE + ["nsub >= 1", "self._header.nchans == nsub * (self._header.nchans // nsub)", "MAXD() < N"])
    c.loops["0:nsamps_r__ii_data"] = LoopSpec([
        ("written", srows(sdone)), ("typestate", TYPESTATE.format(w="out_file")),
        ("setup", "max_delay == MAXD() and len(chan_delays) == nchans and len(chan_to_sub) == nchans and "
                  "len(out_ar) == (gulp - max_delay) * nsub and "
                  "forall(c, 0, nchans, chan_delays[c] == DLY(c) and 0 <= DLY(c) and DLY(c) <= MAXD()) and "
                  "forall(c, 0, nchans, 0 <= chan_to_sub[c] and chan_to_sub[c] < nsub)")],
        end_hints=[("kernel", "forall(T, boff(_k0 - 1), boff(_k0 - 1) + bn(_k0 - 1) - max_delay, forall(s, 0, nsub, "
                              f"out_ar[nsub * (T - boff(_k0 - 1)) + s] == {sval}))"),
                   ("appended", "forall(T, boff(_k0 - 1), boff(_k0 - 1) + bn(_k0 - 1) - max_delay, forall(s, 0, nsub, "
                                "out_file.usamples[nsub * T + s] == out_ar[nsub * (T - boff(_k0 - 1)) + s]))"),
                   ("prefix", f"forall(T, 0, boff(_k0 - 1), forall(s, 0, nsub, out_file.usamples[nsub * T + s] == {sval}))")])
    c.ensure("data", srows("(N - MAXD())"))
    c.ensure("typestate", TYPESTATE.format(w="out_file"))
    c.props.append("C08")
    c.ensure("hdr:time", "out_file.out_header.tsamp == self._header.tsamp and out_file.out_header.tstart == self._header.tstart + start * self._header.tsamp / 86400")
    c.ensure("hdr:channels", "out_file.out_header.nchans == nsub and out_file.out_header.nbits == 32 and out_file.out_header.dm == dm and "
                             "out_file.out_header.foff == self._header.foff * (self._header.nchans // nsub) and "
                             # centre of the first sub-band = mean of the centres of the channels it sums
                             "out_file.out_header.fch1 == self._header.fch1 + (self._header.nchans // nsub - 1) * self._header.foff / 2")
    c.ensure("depth", "out_file.bitsinfo.nbits == 32")
    reg.add(c)

    # ---- remove_zerodm: x - (sum over channels)*w_c + bandpass_c, exact at 32 bits, within one quantisation level
    #      at integer depths when the value stays inside the representable range (the property's own condition)
    zval = "(XS((start + T) * nchans + c) - rsum(XS(), nchans, start + T, nchans) * chanwts[c] + bpass[c])"

    def zcell(lhs):
        return (f"(({lhs} == {zval}) if self._header.nbits == 32 else "
                f"implies(0 <= {zval} and {zval} < 256, {lhs} <= {zval} and {zval} < {lhs} + 1))")

    def zrows(n):
        return (f"len(out_file.usamples) == {n} * nchans and forall(T, 0, {n}, forall(c, 0, nchans, "
                + zcell("out_file.usamples[nchans * T + c]") + "))")
    c = Contract(no_unfold=True, key=B + "Filterbank.remove_zerodm", props=["C07", "C20"], params=wparams(), lets=LETS,
                 cases={"self._header.nbits": [8, 32], "nsamps": [NoneV(None), IntV()]},
                 ghost_args={"remove_zerodm": {"B": "boff(_k0)", "A0": "start + boff(_k0)"}},
                 requires=RANGE + ["self._header.nsamples >= 1"])
    c.loops["0:nsamps_r___data"] = LoopSpec([
        ("written", zrows(done)), ("typestate", TYPESTATE.format(w="out_file")),
        ("setup", "len(bpass) == nchans and len(chanwts) == nchans and "
                  "len(out_ar) == self._header.nsamples * nchans and distinct(bpass, chanwts, out_ar)")],
        end_hints=[("appended", "forall(T, boff(_k0 - 1), boff(_k0 - 1) + bn(_k0 - 1), forall(c, 0, nchans, "
                                "out_file.usamples[nchans * T + c] == out_ar[nchans * (T - boff(_k0 - 1)) + c]))"),
                   ("prefix", "forall(T, 0, boff(_k0 - 1), forall(c, 0, nchans, "
                    + zcell("out_file.usamples[nchans * T + c]") + "))")])
    c.ensure("data", zrows("N"))
    c.ensure("typestate", TYPESTATE.format(w="out_file"))
    c.ensure("depth", "out_file.bitsinfo.nbits == self._header.nbits")
    reg.add(c)

    # ---- requantize / downsample: typestate (C20) and sample count; data equality is covered by the bounded stand-in
    c = Contract(no_unfold=True, key=B + "Filterbank.requantize", props=["C20"],
                 params=wparams(nbits_out=Int(), remove_bandpass=Const(False)), lets=LETS,
                 cases={"self._header.nbits": [8, 32], "nbits_out": [8, 32], "nsamps": [NoneV(None), IntV()]},
                 requires=RANGE)
    c.loops["0:____data"] = LoopSpec([("count", f"len(out_file.usamples) == {done} * nchans"),
                                      ("typestate", TYPESTATE.format(w="out_file"))])
    c.ensure("count", "len(out_file.usamples) == N * nchans")
    c.ensure("typestate", TYPESTATE.format(w="out_file"))
    c.ensure("depth", "out_file.bitsinfo.nbits == nbits_out")
    reg.add(c)

    # ---- downsample: block means over tfactor samples x ffactor channels of the selected input, reduced to the output depth;
    #      complete groups only (the incomplete remainder of the selection is dropped once, at the end - never per block)
    nco = "(nchans // ffactor)"
    tdone = "((N if _k0 == bK else boff(_k0)) // tfactor)"
    mean = ("(ssum2(XS(), nchans * (start + tfactor * T) + ffactor * c, nchans, ffactor, tfactor) / (tfactor * ffactor))")

    def dcell(lhs):
        return f"({lhs} == {mean} if self._header.nbits == 32 else {lhs} == cast_f4_u1({mean}))"

    g0 = "(boff(_k0 - 1) // tfactor)"

    def drows(n):
        return (f"len(out_file.usamples) == {n} * {nco} and forall(T, 0, {n}, forall(c, 0, {nco}, "
                + dcell(f"out_file.usamples[{nco} * T + c]") + "))")
    c = Contract(no_unfold=True, key=B + "Filterbank.downsample", props=["C20", "C07"],
                 params=wparams(tfactor=Int(1), ffactor=Int(1)), lets=LETS,
                 cases={"self._header.nbits": [8, 32], "nsamps": [NoneV(None), IntV()]},
                 requires=RANGE, raises=[Raises("ValueError", when="self._header.nchans % ffactor != 0")])
    c.loops["0:nsamps_r__ii_data"] = LoopSpec([
        ("typestate", TYPESTATE.format(w="out_file")),
        ("count", f"len(out_file.usamples) == {tdone} * {nco}"),
        ("gulp is a whole number of groups", "gulp == tfactor * (gulp // tfactor) and gulp >= 1")],
        body_hints=[("block offset in groups", "boff(_k0) == tfactor * (_k0 * (gulp // tfactor))"),
                    ("block starts on a group boundary", "boff(_k0) // tfactor == _k0 * (gulp // tfactor)")],
        end_hints=[("groups add up", "(boff(_k0 - 1) + bn(_k0 - 1)) // tfactor == "
                                     "boff(_k0 - 1) // tfactor + bn(_k0 - 1) // tfactor"),
                   ("next offset", "(N if _k0 == bK else boff(_k0)) == boff(_k0 - 1) + bn(_k0 - 1)"),
                   ("groups done", "(N if _k0 == bK else boff(_k0)) // tfactor == "
                                   "boff(_k0 - 1) // tfactor + bn(_k0 - 1) // tfactor"),
                   ("block length", f"len(write_ar) == (bn(_k0 - 1) // tfactor) * {nco}"),
                   ("distribute", f"(boff(_k0 - 1) // tfactor + bn(_k0 - 1) // tfactor) * {nco} == "
                                  f"(boff(_k0 - 1) // tfactor) * {nco} + (bn(_k0 - 1) // tfactor) * {nco}")])
    import os
    if os.environ.get("PVC_DS_DATA"):
        c.loops["0:nsamps_r__ii_data"].end_hints += [
            ("index", f"forall(T, {g0}, {g0} + bn(_k0 - 1) // tfactor, forall(c, 0, {nco}, "
                      f"nchans * (start + boff(_k0 - 1)) + nchans * tfactor * (T - {g0}) + ffactor * c == "
                      "nchans * (start + tfactor * T) + ffactor * c))"),
            ("kernel", f"forall(T, {g0}, {g0} + bn(_k0 - 1) // tfactor, forall(c, 0, {nco}, "
                       f"write_ar[{nco} * (T - {g0}) + c] == {mean}))"),
            ("appended", f"forall(T, {g0}, {g0} + bn(_k0 - 1) // tfactor, forall(c, 0, {nco}, "
                         f"out_file.usamples[{nco} * T + c] == (write_ar[{nco} * (T - {g0}) + c] if "
                         f"self._header.nbits == 32 else cast_f4_u1(write_ar[{nco} * (T - {g0}) + c]))))"),
            ("prefix", f"forall(T, 0, {g0}, forall(c, 0, {nco}, " + dcell(f"out_file.usamples[{nco} * T + c]") + "))")]
        c.loops["0:nsamps_r__ii_data"].invariants.append(("written", drows(tdone)))
        c.ensure("data", drows("(N // tfactor)"))
    c.ensure("typestate", TYPESTATE.format(w="out_file"))
    c.ensure("depth", "out_file.bitsinfo.nbits == self._header.nbits")
    c.ensure("count", f"len(out_file.usamples) == (N // tfactor) * {nco}")
    c.props.append("C08")
    c.ensure("hdr:time", "out_file.out_header.tsamp == self._header.tsamp * tfactor and out_file.out_header.tstart == self._header.tstart + start * self._header.tsamp / 86400")
    c.ensure("hdr:channels", "out_file.out_header.nchans == self._header.nchans // ffactor and out_file.out_header.nbits == self._header.nbits and "
                             "out_file.out_header.foff == self._header.foff * ffactor and out_file.out_header.fch1 == self._header.fch1")
    reg.add(c)
