"""C09: rotation kernels (kernels.py): roll_block, roll_block_valid, dmt_block(_valid), and block-level dedispersion.

roll_block(arr, shifts)[r, t] == arr[r, (t - shifts[r]) mod ncols]; FilterbankBlock.dedisperse passes -delays, hence
out[c, t] == x[c, (t + delay_c) mod n]."""
from pvc.contract import Arr, Arr2, Bool, Const, Contract, Int, LoopSpec, Obj, Opaque, Raises, Real

K = "sigpyproc/core/kernels.py::"


def register(reg):
    # ---- roll_block
    c = Contract(K + "roll_block", props=["C09"],
                 params={"arr": Arr2("real", "f4"), "shifts": Arr("int", "i4")},
                 requires=["len(shifts) == arr.shape[0]", "arr.shape[1] >= 1"],
                 ret=Arr2("real", "f4"))
    # circular shift, written without a modulo in the subscript: s = shifts[r] mod ncols places,
    # res[r, t] = arr[r, t - s] for t >= s and arr[r, t - s + ncols] for t < s   (== arr[r, (t - shifts[r]) mod ncols])
    cell = ("{res}[r, t] == (arr[r, t - shifts[r] % ncols] if t >= shifts[r] % ncols else arr[r, t - shifts[r] % ncols + ncols])")
    c.lets = {"ncols": "arr.shape[1]", "nrows": "arr.shape[0]"}
    c.loops["0:irow"] = LoopSpec([
        ("rolled", "forall(r, 0, irow, forall(t, 0, ncols, " + cell.format(res="res") + "))"),
        ("shape", "res.shape[0] == nrows and res.shape[1] == ncols and distinct(res, arr, shifts)")])
    c.ensure("shape", "result.shape[0] == nrows and result.shape[1] == ncols")
    c.ensure("rolled", "forall(r, 0, nrows, forall(t, 0, ncols, " + cell.format(res="result") + "))")
    reg.add(c)

    # ---- roll_block_valid
    c = Contract(K + "roll_block_valid", props=["C09"],
                 params={"arr": Arr2("real", "f4"), "shifts": Arr("int", "i4")},
                 requires=["len(shifts) == arr.shape[0]", "arr.shape[0] >= 1"],
                 ghost_params={"SMAX": Int(), "SMIN": Int()},   # max(0, max shift), min(0, min shift)
                 lets={"ncols": "arr.shape[1]", "nrows": "arr.shape[0]"},
                 ret=Arr2("real", "f4"),
                 raises=[Raises("ValueError", when="ncols + SMIN - SMAX <= 0")])
    c.requires += ["SMAX >= 0 and SMIN <= 0", "forall(r, 0, nrows, SMIN <= shifts[r] and shifts[r] <= SMAX)",
                   "exists(r, 0, nrows, shifts[r] == SMAX) or SMAX == 0", "exists(r, 0, nrows, shifts[r] == SMIN) or SMIN == 0"]
    cell = "{res}[r, j] == arr[r, SMAX - shifts[r] + j]"
    c.loops["0:irow"] = LoopSpec([
        ("valid", "forall(r, 0, irow, forall(j, 0, ncols + SMIN - SMAX, " + cell.format(res="res") + "))"),
        ("shape", "res.shape[0] == nrows and res.shape[1] == ncols + SMIN - SMAX and distinct(res, arr, shifts) and "
                  "start_col == SMAX and end_col == ncols + SMIN")])
    c.ensure("shape", "result.shape[0] == nrows and result.shape[1] == ncols + SMIN - SMAX")
    c.ensure("valid", "forall(r, 0, nrows, forall(j, 0, ncols + SMIN - SMAX, " + cell.format(res="result") + "))")
    reg.add(c)

