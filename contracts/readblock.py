"""C02 (read_block data clause) and C08 (channel selection by first-channel frequency, block header).

The quotient (fch1 - header.fch1) / foff is evaluated under the relative-error model of IEEE doubles (A-FLERR):
requesting the label of channel k *as the library computes it* (fl(fch1 + fl(k*foff))) must select channel k."""
from pvc.contract import Arr, Arr2, Bool, Const, Contract, Int, LoopSpec, Obj, Opaque, Raises, Real
from contracts.fileio import NBITS, RI, SPOS, STREAM, TOTAL, reader_self
from contracts.readers import FRI, FSPOS, header_obj

R = "sigpyproc/readers.py::"
EXTRA = {"tsamp": Real(), "tstart": Real(), "fch1": Real(), "foff": Real(), "dm": Real()}


def register(reg):
    me = Obj("FilReader", file="sigpyproc/readers.py",
             fields={"_header": header_obj(None, EXTRA), "_file": reader_self()})

    class NoneV(Const):
        label = "None"

    class RealV(Real):
        label = "freq"

    class IntV(Int):
        label = "int"
    c = Contract(R + "FilReader.read_block", props=["C02", "C08"], float_err=True,
                 params={"self": me, "start": Int(), "nsamps": Int(), "fch1": Real(), "nchans": Int()},
                 cases={"self._file.bitsinfo.nbits": [8, 32], "fch1": [NoneV(None), RealV()], "nchans": [NoneV(None), IntV()]},
                 ghost_params={"stride": Int(1), "kch": Int(0)},
                 case_defs={("self._file.bitsinfo.nbits", "8"): [("stride", "self._header.nchans")],
                            ("self._file.bitsinfo.nbits", "32"): [("stride", "4 * self._header.nchans")]},
                 lets={"NC": "self._header.nchans", "nbits": "self._file.bitsinfo.nbits",
                       "k": "0 if is_none(fch1) else kch", "ncsel": "self._header.nchans if is_none(nchans) else nchans"},
                 requires=STREAM + [FRI, "self._header.nbits == nbits", f"{TOTAL} == self._header.nsamples * stride",
                                    "self._header.nchans >= 1", "nsamps >= 1",
                                    # channelisation within the magnitudes of real instruments (needed by the error bound)
                                    "self._header.foff <= -0.001 and self._header.foff >= -1000",
                                    "self._header.fch1 >= 1 and self._header.fch1 <= 100000", "kch <= 100000",
                                    # a channel range that leaves the band is NOT excluded: it must be refused (raises)
                                    "ncsel >= 1 and k <= self._header.nchans"],
                 case_requires={("fch1", "freq"): ["kch >= 1", "fch1 == fl(self._header.fch1 + fl(kch * self._header.foff))"]},
                 modifies=["self._file.ifile_cur", "self._file.file_obj"],
                 after_assign={"chan_start": [("nearest channel", "chan_start == k")]},
                 # out-of-range requests - in time or in frequency - raise; every other request is served (C02, C08: the
                 # header of the block always describes the rows that are returned)
                 raises=[Raises("ValueError", when="start < 0 or start + nsamps > self._header.nsamples or "
                                                   "k + ncsel > self._header.nchans")],
                 ret=Opaque())
    c.ensure("shape", "result.data.shape[0] == ncsel and result.data.shape[1] == nsamps")
    c.ensure("samples", "forall(c, 0, ncsel, forall(t, 0, nsamps, result.data[c, t] == "
                        "xs(nbits, 'big', (start + t) * NC + k + c)))")
    c.ensure("header", "result.header.nsamples == nsamps and result.header.nchans == ncsel")
    c.ensure("header tstart", "result.header.tstart == self._header.tstart + start * self._header.tsamp / 86400")
    c.ensure("header fch1", "result.header.fch1 == (self._header.fch1 if is_none(fch1) else fch1)")
    reg.add(c)
