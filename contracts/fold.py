"""C11: the folding kernel puts every (sample, channel) into exactly one cell of the cube.

Deductive content: for every processed (t, c) the cell index lies inside the cube (sub-integration < nints, sub-band <
nsubs, 0 <= phase bin < nbins: the three coordinates are each in range, so distinct coordinates give distinct cells),
every visit adds the sample to `fold_ar` and exactly 1 to `count_ar` of that one cell, and nothing else is written;
hence the hit counts grow by (nsamps - maxdelay) * nchans per call.  Scalar float arithmetic is real arithmetic here
(A-REAL): the floor/truncation steps are exact, rounding inside the phase formula is not modelled."""
from pvc.contract import Arr, Bool, Const, Contract, Int, LoopSpec, Obj, Opaque, Raises, Real

K = "sigpyproc/core/kernels.py::"


def register(reg):
    c = Contract(K + "fold", props=["C11"],
                 params={"inarray": Arr("real", None, view=True), "fold_ar": Arr("real", "f4"), "count_ar": Arr("int", None),  # hit counts as mathematical integers (assumption: no int32 overflow of a cell count)
                         "delays": Arr("int", "i4"), "maxdelay": Int(0), "tsamp": Real(), "period": Real(), "accel": Real(),
                         "total_nsamps": Int(1), "nsamps": Int(0), "nchans": Int(1), "nbins": Int(1), "nints": Int(1),
                         "nsubs": Int(1), "index": Int(0)},
                 requires=["tsamp > 0", "period > 0", "nsubs <= nchans", "nchans * nsamps <= len(inarray)",
                           "nchans <= len(delays)", "forall(c, 0, nchans, 0 <= delays[c] and delays[c] <= maxdelay)",
                           "len(fold_ar) == nbins * nints * nsubs", "len(count_ar) == nbins * nints * nsubs",
                           "implies(nsamps > maxdelay, index + nsamps - maxdelay <= total_nsamps)",
                           "distinct(inarray, fold_ar, count_ar, delays)"],
                 modifies=["fold_ar", "count_ar"],
                 after_assign={
                     # the documented assignment of a sample to its cell (property clause "by the documented phase
                     # formula", "sub-integration by time order"): stated on the kernel's own intermediate values
                     "tj": [("time of the sample in the whole observation", "tj == (isamp + index) * tsamp")],
                     "phase": [("documented phase formula", "phase == nbins * ((isamp + index) * tsamp) * (1 + accel * "
                                "((isamp + index) * tsamp - total_nsamps * tsamp) / (2 * 299792458.0)) / period + 0.5")],
                     "subint": [("sub-integration by time order", "subint * total_nsamps <= (isamp + index) * nints and "
                                 "(isamp + index) * nints < (subint + 1) * total_nsamps")],
                     "sub_band": [("sub-band in range", "0 <= sub_band and sub_band <= nsubs - 1")],
                     "pos2": [("cell inside the cube", "0 <= pos2 and pos2 < nbins * nints * nsubs and "
                                                       "pos2 == subint * nbins * nsubs + sub_band * nbins + phasebin")]})
    total = "ssum(arr(count_ar), 0, 1, len(count_ar))"
    c.loops["0:isamp"] = LoopSpec([
        ("hits", f"{total} == old({total}) + isamp * nchans"),
        ("geometry", "factor1 * nints == total_nsamps and factor2 * nsubs == nchans")])
    c.loops["1:ichan"] = LoopSpec([
        ("hits", f"{total} == old({total}) + isamp * nchans + ichan"),
        ("geometry", "factor1 * nints == total_nsamps and factor2 * nsubs == nchans"),
        ("cell", "0 <= phasebin and phasebin < nbins and 0 <= subint and subint * factor1 <= isamp + index and "
                 "subint <= nints - 1 and pos1 == subint * nbins * nsubs + phasebin")],
        end_hints=[("one more hit", "store_sum(count_ar)")])
    c.ensure("hits", f"{total} == old({total}) + (nsamps - maxdelay if nsamps > maxdelay else 0) * nchans")
    reg.add(c)


def register_consumer(reg):
    from contracts.base import B, COMMON, LETS, RANGE, params
    # Filterbank.fold: every dedispersed sample of every channel is counted exactly once, for every gulp
    done = "(N - MAXD() if _k0 == bK else boff(_k0))"
    total = "ssum(arr(count_ar), 0, 1, len(count_ar))"
    c = Contract(no_unfold=True, key=B + "Filterbank.fold", props=["C11"],
                 params=params(period=Real(), dm=Real(), accel=Real(), nbins=Int(1), nints=Int(1), nbands=Int(1)),
                 lets=LETS, requires=RANGE + ["MAXD() < N", "period > 0", "self._header.tsamp > 0"],
                 ghost_args={"fold": {}}, raises=[Raises("ValueError", only_if="True")], **COMMON)
    c.loops["0:nsamps_r_ii_data"] = LoopSpec([
        ("hits", f"{total} == {done} * nchans"),
        ("setup", "max_delay == MAXD() and len(chan_delays) == nchans and nbands <= nchans and nbands >= 1 and "
                  "len(fold_ar) == nbins * nints * nbands and len(count_ar) == nbins * nints * nbands and "
                  "distinct(fold_ar, count_ar, chan_delays) and "
                  "forall(c, 0, nchans, chan_delays[c] == DLY(c) and 0 <= DLY(c) and DLY(c) <= MAXD())")],
        init_hints=[("no hits yet", "lemma_zero_sum(arr(count_ar), len(count_ar))")],
        body_hints=[("index", "ii * (gulp - max_delay) == boff(_k0)")])
    c.ensure("every sample counted once", f"{total} == (N - MAXD()) * nchans")
    reg.add(c)


_r0 = register


def register(reg):  # noqa: F811
    _r0(reg)
    register_consumer(reg)
