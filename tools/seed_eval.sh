#!/bin/bash
# usage: seed_eval.sh <worktree> <property> <mutant-index> [test files...]
# 1) confirms in the scratch worktree: demo passes pristine / fails patched, listed tests pass patched
# 2) runs ./check <property> against the patched worktree (PVC_REPO=<worktree>; /repo itself is not touched, so
#    several evaluations can run side by side); tools/seed_sweep.sh repeats it with `git -C /repo apply`
# 3) stores everything in /verif/seeded/<pid>_m<i>/
wt=$1; pid=$2; i=$3; shift 3
si=${SRC_I:-$i}   # index of the mutant directory inside the worktree (round-B worktrees restart at 1)
tests="$@"
d=/verif/seeded/${pid}_m$i
mkdir -p $d
cp $wt/mutant_$si/patch.diff $wt/mutant_$si/demo.py $d/ 2>/dev/null
cp $wt/mutant_$si/notes.md $d/notes.md 2>/dev/null
export NUMBA_CACHE_DIR=/tmp/nbc_seed_${pid}_$i
[ -d $wt/sigpyproc.egg-info ] || cp -r /repo/sigpyproc.egg-info $wt/ 2>/dev/null
cd $wt && git checkout -q -- sigpyproc
PYTHONPATH=$wt /venv/bin/python $wt/mutant_$si/demo.py > $d/demo_pristine.log 2>&1; p0=$?
git apply $d/patch.diff || { echo "patch does not apply"; exit 9; }
PYTHONPATH=$wt /venv/bin/python $wt/mutant_$si/demo.py > $d/demo_patched.log 2>&1; p1=$?
t1=skipped
if [ -n "$tests" ]; then PYTHONPATH=$wt /venv/bin/python -m pytest -q -p no:cacheprovider $tests > $d/tests_patched.log 2>&1; t1=$?; fi
cd /verif
out=/tmp/seedout_${pid}_$i; mkdir -p $out
PVC_REPO=$wt PVC_OUT=$out ./check $pid > $d/check_patched.log 2>&1; c1=$?
rm -rf $out
cd $wt && git checkout -q -- sigpyproc; cd /verif
rm -rf $NUMBA_CACHE_DIR
echo "demo_pristine=$p0 demo_patched=$p1 tests_patched=$t1 check_exit=$c1"
grep -m3 "VIOLATION" $d/check_patched.log | cut -c1-220
tail -1 $d/check_patched.log | cut -c1-250
python3-vt - "$d" "$pid" "$i" "$p0" "$p1" "$t1" "$c1" "$tests" <<'PY'
import json,sys,re
d,pid,i,p0,p1,t1,c1,tests=sys.argv[1:9]
log=open(d+"/check_patched.log").read()
viol=[l.split("obligation=")[1][:160] for l in log.splitlines() if l.startswith("VIOLATION") and "obligation=" in l][:6]
notes=open(d+"/notes.md").read() if __import__("os").path.exists(d+"/notes.md") else ""
json.dump(dict(property=pid, mutant=int(i), breaks=pid, needs_to_manifest=notes[:1200],
               confirmed=dict(demo_exit_pristine=int(p0), demo_exit_patched=int(p1), tests_run=tests, tests_exit_patched=t1),
               check=dict(cmd=f"git -C /repo apply seeded/{pid}_m{i}/patch.diff; ./check {pid}; git -C /repo checkout -- .", exit=int(c1),
                          violated_obligations=viol, detected=(int(c1)==1))),
          open(d+"/meta.json","w"), indent=1)
PY
