#!/bin/bash
# merge the results of an interrupted tools/seed_sweep.sh run (/tmp/sweep_progress.txt) into seeded/SWEEP.txt
# (the LAST line recorded for a change wins)
cd /verif
awk '{last[$1]=$0} END {for (k in last) print last[k]}' /tmp/sweep_progress.txt | sort > /tmp/sweep_new.txt
awk 'NR==FNR {seen[$1]=1; print; next} !($1 in seen)' /tmp/sweep_new.txt seeded/SWEEP.txt | sort > /tmp/sweep_merged.txt
mv /tmp/sweep_merged.txt seeded/SWEEP.txt; rm -f /tmp/sweep_new.txt
wc -l seeded/SWEEP.txt
