#!/bin/bash
# merge the results of an interrupted tools/seed_sweep.sh run (/tmp/sweep_progress.txt) into seeded/SWEEP.txt
cd /verif
sort -u /tmp/sweep_progress.txt > /tmp/sweep_new.txt
awk 'NR==FNR {seen[$1]=1; print; next} !($1 in seen)' /tmp/sweep_new.txt seeded/SWEEP.txt | sort > /tmp/sweep_merged.txt
mv /tmp/sweep_merged.txt seeded/SWEEP.txt; rm -f /tmp/sweep_new.txt
