#!/usr/local/bin/python3-vt
"""Regenerate MANIFEST.json from contracts/props.py (claimed checks) and the not-applicable list."""
import json, os, sys
V = os.path.dirname(os.path.dirname(os.path.abspath(__file__)))
sys.path.insert(0, V)
from contracts import props

ids = [json.loads(l)["id"] for l in open(os.path.join(V, "properties.jsonl"))]
checks = []
for pid in ids:
    if pid not in props.PROPS or props.PROPS[pid].get("disabled"):
        continue
    P = props.PROPS[pid]
    checks.append(dict(
        property_id=pid,
        quick_cmd=f"./check {pid} --tier quick",
        thorough_cmd=f"./check {pid} --tier thorough",
        evidence_file=f"/verif/evidence/{pid}.json",
        replay_cmd_template=f"./check {pid} --replay {{path}}",
        engine="pvc",
        level_claimed=dict(category=P["level"], text=P["level_text"], design_ref=P.get("design_ref", "DESIGN.md sections 6 and 13")),
        level_note=P["level_note"],
        technique=P.get("technique", "contract-based deductive verification: VCs generated from the real source (ast) "
                                     "against sidecar contracts, discharged by z3/cvc5"),
    ))
na = []
for pid in ids:
    if pid in props.PROPS and not props.PROPS[pid].get("disabled"):
        continue
    na.append(dict(property_id=pid, reason=props.NOT_APPLICABLE.get(pid, "check not built yet (work in progress)")))
m = dict(version=1, setup_cmd="true",
         hooks=dict(guard="SIGPYPROC_VERIF",
                    enable="no hooks: contracts are sidecars under /verif/contracts; /repo is read (ast) on every run and never instrumented",
                    baseline_off_cmd="cd /repo && /venv/bin/python -m pytest -q -p no:cacheprovider --timeout=900",
                    source_commits=[], add_only=True),
         engines=[dict(name="pvc", path="/verif/pvc", serves_properties=[c["property_id"] for c in checks],
                       kind_free_text="VC generator (Python ast -> z3/cvc5) with sidecar contracts; bounded stand-ins under /verif/bounded")],
         checks=checks, notes="see DESIGN.md", not_applicable=na)
json.dump(m, open(os.path.join(V, "MANIFEST.json"), "w"), indent=1)
import jsonschema
jsonschema.validate(m, json.load(open("/root/.vp/MANIFEST.schema.json")))
es = json.load(open("/root/.vp/EVIDENCE.schema.json"))
for c in checks:
    p = os.path.join(V, "evidence", c["property_id"] + ".json")
    if os.path.exists(p):
        jsonschema.validate(json.load(open(p)), es)
print("manifest ok:", [c["property_id"] for c in checks])
