#!/usr/bin/env python3
"""Bring seeded/<id>/meta.json's `check` block up to date with seeded/SWEEP.txt (the latest run of the CURRENT machinery
against the CURRENT tree with the change applied). The confirmation block (demo / tests) is left as recorded."""
import json
import os
import sys

V = os.path.dirname(os.path.dirname(os.path.abspath(__file__)))
pat = sys.argv[1] if len(sys.argv) > 1 else ""
for ln in open(os.path.join(V, "seeded", "SWEEP.txt")):
    parts = ln.rstrip("\n").split(" ", 2)
    if len(parts) < 2 or pat not in parts[0]:
        continue
    mp = os.path.join(V, "seeded", parts[0], "meta.json")
    if not os.path.exists(mp):
        continue
    m = json.load(open(mp))
    first = parts[2] if len(parts) > 2 else ""
    m["check"]["exit"] = int(parts[1].replace("exit=", "")) if parts[1].startswith("exit=") else parts[1]
    m["check"]["detected"] = m["check"]["exit"] == 1
    m["check"]["violated_obligations"] = [first] if first else []
    m["check"]["source"] = "tools/seed_sweep.sh on the current tree (seeded/SWEEP.txt)"
    json.dump(m, open(mp, "w"), indent=1)
    print(parts[0], m["check"]["exit"], first[:80])
