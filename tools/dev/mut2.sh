#!/bin/bash
# usage: mut2.sh <file-rel> <sed-expr> <kernel names...>
rm -rf /tmp/scr/sigpyproc; mkdir -p /tmp/scr; cp -r /repo/sigpyproc /tmp/scr/
f=$1; e=$2; shift 2
sed -i "$e" /tmp/scr/$f
diff <(cat /repo/$f) /tmp/scr/$f | head -6
PVC_REPO=/tmp/scr python3-vt /verif/tools/dev/wk.py "$@"
