#!/bin/bash
# usage: mutcheck.sh <pid> <file-rel> <sed-expr> [extra check args]   -- runs ./check on a mutated scratch copy of /repo
pid=$1; f=$2; e=$3; shift 3
rm -rf /tmp/scr; mkdir -p /tmp/scr; cp -r /repo/sigpyproc /tmp/scr/
sed -i "$e" /tmp/scr/$f
diff <(cat /repo/$f) /tmp/scr/$f | head -8
cd /verif && PVC_REPO=/tmp/scr ./check $pid "$@" 2>&1 | cut -c1-260 | tail -8
echo "exit=${PIPESTATUS[0]}"
