"""dev helper: verify one contract serially, print non-proved / slow obligations."""
import sys, os; sys.path.insert(0,'/verif')
import z3, contracts, specs, time
from pvc import smt
from pvc.models import MODELS
from pvc import iomodel, hdrmodel, wrmodel, bytesmodel, npelem
from pvc.source import Source
from pvc.verify import Verifier
reg=contracts.load_all()
key=sys.argv[1]
v=Verifier(Source(os.environ.get("PVC_REPO","/repo")),reg,specs.make_specs(),MODELS); contracts.configure(v)
t0=time.time()
obls,status=v.verify(reg.get(key))
print(status, len(obls), 'gen', round(time.time()-t0,1), flush=True)
T=int(os.environ.get('TMO','3000'))
pat=os.environ.get('PAT')
for o in obls:
    if pat and pat not in o.name: continue
    if o.cls=='C':
        r,_=smt.check_sat(o.premises,timeout_ms=2000)
        if r!='sat': print('COVER',o.name.split('::')[1],r, flush=True)
        continue
    ra=smt.check_valid(o.premises,o.goal,timeout_ms=T,use_cvc5=False)
    if ra.status!='proved' or ra.time_s>1:
        print(o.name.split('::')[1], ra.status, ra.solver, round(ra.time_s,2), flush=True)
