import sys; sys.path.insert(0,'/verif')
from pvc import run as R
import time
for k in sys.argv[1:]:
    if '::' not in k: k="sigpyproc/core/kernels.py::"+k
    info=R.work((k,int(__import__('os').environ.get('TMO','10000')),[],None))
    print(k, info['status'], info['wall_s'], len(info['obligations']))
    for o in info['obligations']:
        if o['status']!='proved': print('  ',o['name'],o['status'],o['time_s'] if 'time_s' in o else '',str(o.get('model'))[:300],o.get('reason'))
