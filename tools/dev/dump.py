import sys; sys.path.insert(0,'/verif')
import z3, contracts, specs
from pvc.models import MODELS
from pvc import iomodel, hdrmodel, wrmodel, bytesmodel, npelem
from pvc.source import Source
from pvc.verify import Verifier
key, pat = sys.argv[1], sys.argv[2]
if '::' not in key: key="sigpyproc/core/kernels.py::"+key
reg=contracts.load_all()
v=Verifier(Source(),reg,specs.make_specs(),MODELS); contracts.configure(v)
obls,status=v.verify(reg.get(key))
for o in obls:
    if pat in o.name:
        s=z3.Solver()
        for p in o.premises: s.add(p)
        s.add(z3.Not(o.goal))
        open('/tmp/o.smt2','w').write(s.to_smt2())
        print(o.name, len(o.premises))
        for p in o.premises: print('  P',str(p)[:400].replace('\n',' '))
        print('  G',str(o.goal)[:600])
        continue
