#!/usr/bin/env python3
"""Regenerate the seeded-change table of DESIGN.md (section 16) from seeded/*/meta.json."""
import glob
import json
import os
import re

V = os.path.dirname(os.path.dirname(os.path.abspath(__file__)))
sweep = {}
sp = os.path.join(V, "seeded", "SWEEP.txt")
if os.path.exists(sp):
    for ln in open(sp):
        parts = ln.rstrip("\n").split(" ", 2)
        if len(parts) >= 2:
            sweep[parts[0]] = (parts[1], parts[2] if len(parts) > 2 else "")
rows = []
for f in sorted(glob.glob(os.path.join(V, "seeded", "*", "meta.json"))):
    m = json.load(open(f))
    d = os.path.basename(os.path.dirname(f))
    notes = ""
    np_ = os.path.join(os.path.dirname(f), "notes.md")
    if os.path.exists(np_):
        lines = [ln.strip("# -\n ") for ln in open(np_) if ln.strip()]
        notes = lines[0][:110] if lines else ""
    tl = os.path.join(os.path.dirname(f), "tests_patched.log")
    tests = str(m["confirmed"]["tests_exit_patched"])
    if os.path.exists(tl):
        txt = open(tl).read()
        last = [ln for ln in txt.splitlines() if " passed" in ln][-1:] or [""]
        fails = [ln for ln in txt.splitlines() if ln.startswith("FAILED")]
        if fails and all("test_utils.py::TestPaths::test_" in ln and "permission" in ln for ln in fails):
            tests = "pass (whole suite: " + last[0].strip("= ").split(" in ")[0] + "; the 2 baseline permission failures)"
        elif not fails and " passed" in last[0]:
            tests = "pass (" + last[0].strip("= ").split(" in ")[0] + ")"
    m["confirmed"]["tests_exit_patched"] = tests
    ob = m["check"].get("violated_obligations") or []
    first = ob[0] if ob else ""
    kind = "B" if first.startswith("bounded:") else ("D" if first else "-")
    if any(not o.startswith("bounded:") for o in ob):
        kind = "D" if all(not o.startswith("bounded:") for o in ob) else "D+B"
    if d in sweep:  # latest run against the current tree and machinery (tools/seed_sweep.sh)
        first = sweep[d][1]
        kind = "B" if first.startswith("bounded:") else "D"
        m["check"]["exit"] = sweep[d][0].replace("exit=", "")
    first = re.sub(r"\s+no-failing-input-found$", "", first)
    first = first.replace("|", "/")
    rows.append(f"| {d} | {notes.replace('|', '/')} | {m['confirmed']['tests_exit_patched']} | {m['check']['exit']} | {kind} | `{first[:120]}` |")
table = "| change | what it does | existing tests with the change | check exit | by | first obligation named |\n|---|---|---|---|---|---|\n" + "\n".join(rows)
p = os.path.join(V, "DESIGN.md")
s = open(p).read()
start, end = "<!-- seedtable:start -->", "<!-- seedtable:end -->"
block = f"{start}\n{table}\n{end}"
if "@@SEEDTABLE@@" in s:
    s = s.replace("@@SEEDTABLE@@", block)
else:
    s = re.sub(re.escape(start) + r".*?" + re.escape(end), lambda _m: block, s, flags=re.S)
open(p, "w").write(s)
print(len(rows), "rows;", sum(1 for r in rows if "| 1 | " in r), "detected")
