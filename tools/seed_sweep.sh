#!/bin/bash
# Re-run every seeded change against the CURRENT /repo tree and the CURRENT machinery:
#   copy /repo/sigpyproc to a scratch tree, apply seeded/<id>/patch.diff there, run ./check <pid> with PVC_REPO pointing at it.
# usage: tools/seed_sweep.sh [jobs] [pattern]     -> writes seeded/SWEEP.txt (one line per change)
# (equivalent to `git -C /repo apply <patch>; ./check <pid>; git -C /repo checkout -- .`, without touching /repo)
jobs=${1:-3}; pat=${2:-}
cd /verif
one() {
  d=$1; id=$(basename $d); pid=${id%%_*}
  w=/tmp/sweep_$id; rm -rf $w; mkdir -p $w; cp -r /repo/sigpyproc /repo/sigpyproc.egg-info /repo/tests $w/ 2>/dev/null
  pf=/verif/$d/patch.diff; [ -f /verif/$d/patch_current.diff ] && pf=/verif/$d/patch_current.diff   # same edit, refreshed context after a later fix: commit
  if ! (cd $w && patch -p1 -s --no-backup-if-mismatch < $pf > $w/patch.log 2>&1); then
    echo "$id does-not-apply-to-current-tree"; rm -rf $w; return
  fi
  out=/tmp/sweepout_$id; mkdir -p $out
  NUMBA_CACHE_DIR=/tmp/nbc_sweep_$id PVC_FIXTURES=$w/tests/data PVC_REPO=$w PVC_OUT=$out ./check $pid > $out/check.log 2>&1; e=$?
  first=$(grep -m1 "^VIOLATION" $out/check.log | sed 's/.*obligation=//' | cut -c1-110)
  echo "$id exit=$e $first"
  rm -rf $w $out /tmp/nbc_sweep_$id
}
export -f one
# (each result is also appended to /tmp/sweep_progress.txt as soon as it is known: tools/seed_merge.sh merges a partial sweep)
ls -d seeded/*_m* | grep "$pat" | xargs -P $jobs -I{} bash -c 'one {}' | tee -a /tmp/sweep_progress.txt | sort > /tmp/sweep_new.txt
# keep earlier results of changes that were not re-run now
touch seeded/SWEEP.txt
awk 'NR==FNR {seen[$1]=1; print; next} !($1 in seen)' /tmp/sweep_new.txt seeded/SWEEP.txt | sort > /tmp/sweep_merged.txt
mv /tmp/sweep_merged.txt seeded/SWEEP.txt; rm -f /tmp/sweep_new.txt
cat seeded/SWEEP.txt
