"""Spec functions: symbolic side (SpecFn with one-step unfolding). Concrete twins live in specs/concrete.py."""
import z3
from pvc import smt
from pvc.verify import SpecFn
from pvc.values import INT, REAL


def _sel_real(A, idx):
    e = z3.Select(A, smt.som(idx))
    if e.sort() == INT:
        return z3.ToReal(e)
    if e.sort() == z3.BoolSort():
        return z3.If(e, z3.RealVal(1), z3.RealVal(0))
    return e


def make_specs():
    specs = {}
    # ssum(A, base, stride, n) = sum_{k<n} A[base + stride*k]
    specs["ssum"] = SpecFn("ssum", None, REAL,
                           lambda eng, st, r: _sel_real(r[0], r[1] + r[2] * (r[3] - 1)),
                           "strided sum of a flat array")
    # dsum(A, i0, D, doff, nc, n) = sum_{c<n} A[i0 + nc*D[doff+c] + c]   (delay-shifted channel sum)
    specs["dsum"] = SpecFn("dsum", None, REAL,
                           lambda eng, st, r: _sel_real(r[0], r[1] + r[4] * z3.Select(r[2], smt.som(r[3] + r[5] - 1))
                                                        + (r[5] - 1)),
                           "sum over channels of delay-shifted samples")
    # dsel(A, i0, D, doff, nc, S, soff, s, n) = sum_{c<n, S[soff+c]==s} A[i0 + nc*D[doff+c] + c]
    specs["dsel"] = SpecFn("dsel", None, REAL,
                           lambda eng, st, r: z3.If(z3.Select(r[5], smt.som(r[6] + r[8] - 1)) == r[7],
                                                    _sel_real(r[0], r[1] + r[4] * z3.Select(r[2], smt.som(r[3] + r[8] - 1))
                                                              + (r[8] - 1)), z3.RealVal(0)),
                           "sum over the channels of one sub-band of delay-shifted samples")

    # ssum2(A, base, s1, n2, n1) = sum_{a<n1} ssum(A, base + s1*a, 1, n2)
    def unfold2(eng, st, r):
        from pvc.values import VInt
        from pvc.calls import VOpaqueArr
        inner = specs["ssum"].apply(eng, st, [VOpaqueArr(r[0]), VInt(smt.som(r[1] + r[2] * (r[4] - 1))), VInt(1),
                                              VInt(r[3])])
        return inner.t
    from pvc.iomodel import ghost_specs
    specs.update(ghost_specs())
    specs["ssum2"] = SpecFn("ssum2", None, REAL, unfold2, "block sum over n1 rows of n2 contiguous elements")
    return specs
