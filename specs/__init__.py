"""Spec functions: symbolic side (SpecFn with one-step unfolding). Concrete twins live in specs/concrete.py."""
import z3
from pvc import smt
from pvc.verify import SpecFn
from pvc.values import INT, REAL


def _sel_real(A, idx):
    e = z3.Select(A, smt.som(idx))
    if e.sort() == INT:
        return z3.ToReal(e)
    if e.sort() == z3.BoolSort():
        return z3.If(e, z3.RealVal(1), z3.RealVal(0))
    return e


def make_specs():
    specs = {}
    # ssum(A, base, stride, n) = sum_{k<n} A[base + stride*k]
    specs["ssum"] = SpecFn("ssum", None, REAL,
                           lambda eng, st, r: _sel_real(r[0], r[1] + r[2] * (r[3] - 1)),
                           "strided sum of a flat array")
    # dsum(A, i0, D, doff, nc, n) = sum_{c<n} A[i0 + nc*D[doff+c] + c]   (delay-shifted channel sum)
    specs["dsum"] = SpecFn("dsum", None, REAL,
                           lambda eng, st, r: _sel_real(r[0], r[1] + r[4] * z3.Select(r[2], smt.som(r[3] + r[5] - 1))
                                                        + (r[5] - 1)),
                           "sum over channels of delay-shifted samples")
    return specs
