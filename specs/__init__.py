"""Spec functions: symbolic side (SpecFn with one-step unfolding). Concrete twins live in specs/concrete.py."""
import z3
from pvc import smt
from pvc.verify import SpecFn
from pvc.values import INT, REAL


def _sel_real(A, idx):
    e = z3.Select(A, smt.som(idx))
    if e.sort() == INT:
        return z3.ToReal(e)
    if e.sort() == z3.BoolSort():
        return z3.If(e, z3.RealVal(1), z3.RealVal(0))
    return e


def make_specs():
    """Sum specs are written over the *sample-absolute* index T (flat index nc*T + c), so that a streamed block at
    sample offset B contributes terms f(..., B + t): linear in the summation bounds, products only inside the
    one-step unfoldings."""
    specs = {}
    # ssum(A, base, stride, n) = sum_{k<n} A[base + stride*k]            (generic strided sum; np.sum model)
    specs["ssum"] = SpecFn("ssum", None, REAL,
                           lambda eng, st, r: _sel_real(r[0], r[1] + r[2] * (r[3] - 1)),
                           "strided sum of a flat array")
    # rsum(A, nc, T, n) = sum_{c<n} A[nc*T + c]                          (channels of sample T)
    specs["rsum"] = SpecFn("rsum", None, REAL,
                           lambda eng, st, r: _sel_real(r[0], r[1] * r[2] + (r[3] - 1)), "row (sample) sum")
    # colsum(A, nc, c, T0, n) = sum_{t<n} A[nc*(T0+t) + c]                (samples T0..T0+n of channel c)
    specs["colsum"] = SpecFn("colsum", None, REAL,
                             lambda eng, st, r: _sel_real(r[0], r[1] * (r[3] + r[4] - 1) + r[2]), "column sum")
    # dsum(A, nc, T, D, n) = sum_{c<n} A[nc*(T + D[c]) + c]               (delay-shifted channel sum)
    specs["dsum"] = SpecFn("dsum", None, REAL,
                           lambda eng, st, r: _sel_real(r[0], r[1] * (r[2] + z3.Select(r[3], smt.som(r[4] - 1)))
                                                        + (r[4] - 1)),
                           "sum over channels of delay-shifted samples")
    # dsel(A, nc, T, D, S, s, n) = sum_{c<n, S[c]==s} A[nc*(T + D[c]) + c]
    specs["dsel"] = SpecFn("dsel", None, REAL,
                           lambda eng, st, r: z3.If(z3.Select(r[4], smt.som(r[6] - 1)) == r[5],
                                                    _sel_real(r[0], r[1] * (r[2] + z3.Select(r[3], smt.som(r[6] - 1)))
                                                              + (r[6] - 1)), z3.RealVal(0)),
                           "sum over the channels of one sub-band of delay-shifted samples")
    from pvc.iomodel import ghost_specs
    specs.update(ghost_specs())

    # ssum2(A, base, s1, n2, n1) = sum_{a<n1} ssum(A, base + s1*a, 1, n2)
    def unfold2(eng, st, r):
        from pvc.values import VInt
        from pvc.calls import VOpaqueArr
        inner = specs["ssum"].apply(eng, st, [VOpaqueArr(r[0]), VInt(smt.som(r[1] + r[2] * (r[4] - 1))), VInt(1),
                                              VInt(r[3])])
        return inner.t
    specs["ssum2"] = SpecFn("ssum2", None, REAL, unfold2, "block sum over n1 rows of n2 contiguous elements")
    return specs
