"""Ghost client code: compositions of the real functions, verified against their contracts only
(modular: the callees' bodies are not visible here)."""
import io

from sigpyproc.io.bits import pack, unpack
from sigpyproc.io.sigproc import _read_string, encode_key


def roundtrip_bytes(b, nbits, bitorder):
    u = unpack(b, nbits, bitorder=bitorder)
    return pack(u, nbits, bitorder=bitorder)


def roundtrip_samples(v, nbits, bitorder):
    p = pack(v, nbits, bitorder=bitorder)
    return unpack(p, nbits, bitorder=bitorder)


def lemma_csum_mono(a, b):
    """csum(a) <= csum(b) for 0 <= a <= b <= nf (induction on b; data sections have non-negative length)."""
    if b > a:
        lemma_csum_mono(a, b - 1)


def lemma_rsum(A, nc, T, n):
    """np.sum of the contiguous slice [nc*T, nc*T+n) is the row sum rsum(A, nc, T, n) (induction on n)."""
    if n > 0:
        lemma_rsum(A, nc, T, n - 1)


def lemma_colsum_split(A, nc, c, T0, n, m):
    """colsum over n+m samples = colsum over the first n + colsum over the next m (induction on m)."""
    if m > 0:
        lemma_colsum_split(A, nc, c, T0, n, m - 1)


def lemma_store_below(A, i, v, n):
    """Writing element i does not change the sum of the first n <= i elements (induction on n)."""
    if n > 0:
        lemma_store_below(A, i, v, n - 1)


def lemma_store_sum(A, i, v, n):
    """Sum over [0, n) after A[i] := v, for 0 <= i < n, is the old sum - A[i] + v (induction on n down to i+1)."""
    if n > i + 1:
        lemma_store_sum(A, i, v, n - 1)
    else:
        lemma_store_below(A, i, v, i)


def lemma_zero_sum(A, n):
    """The sum of n zero elements is zero (induction on n)."""
    if n > 0:
        lemma_zero_sum(A, n - 1)


# ---- C17: histories of FoldedData re-tunings, against the contracts of _get_dmdelays / _get_pdelays only
def folded_dm_history(cube, a, b):
    """Total increment rolled by update_dm(a); update_dm(b)."""
    d1 = cube._get_dmdelays(a)
    d2 = cube._get_dmdelays(b)
    return d1 + d2


def folded_dm_repeat(cube, a):
    """Increment rolled by the second of two identical update_dm calls."""
    cube._get_dmdelays(a)
    return cube._get_dmdelays(a)


def folded_period_history(cube, a, b):
    """Total increment rolled by update_period(a); update_period(b)."""
    d1 = cube._get_pdelays(a)
    d2 = cube._get_pdelays(b)
    return d1 + d2


def folded_period_repeat(cube, a):
    cube._get_pdelays(a)
    return cube._get_pdelays(a)


def folded_mixed_history(cube, a, p, b):
    """update_dm(a); update_period(p); update_dm(b): the period update does not disturb the DM bookkeeping."""
    d1 = cube._get_dmdelays(a)
    cube._get_pdelays(p)
    d2 = cube._get_dmdelays(b)
    return d1 + d2


# ---- C16: the mask built by Filterbank.clean_rfi (same call order), against the RFIMask contracts only
def rfimask_union(mask, freq_mask, method, custom_funcn):
    mask.apply_mask(freq_mask)
    mask.apply_method(method)
    mask.apply_funcn(custom_funcn)


# ---- C05: reading back what encode_key wrote (against the contracts of encode_key / _read_string only)
def header_key_roundtrip(key, tail):
    fp = io.BytesIO(encode_key(key) + tail)
    k = _read_string(fp)
    return k, fp.tell()


def header_strvalue_roundtrip(key, value, tail):
    fp = io.BytesIO(encode_key(key, value=value, value_type="str") + tail)
    k = _read_string(fp)
    v = _read_string(fp)
    return k, v, fp.tell()


# ---- C12: forward real FFT followed by the inverse (lengths only; against the two contracts)
def rfft_ifft_length(ts):
    return ts.rfft().ifft()
