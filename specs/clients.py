"""Ghost client code: compositions of the real functions, verified against their contracts only
(modular: the callees' bodies are not visible here)."""
from sigpyproc.io.bits import pack, unpack


def roundtrip_bytes(b, nbits, bitorder):
    u = unpack(b, nbits, bitorder=bitorder)
    return pack(u, nbits, bitorder=bitorder)


def roundtrip_samples(v, nbits, bitorder):
    p = pack(v, nbits, bitorder=bitorder)
    return unpack(p, nbits, bitorder=bitorder)


def lemma_csum_mono(a, b):
    """csum(a) <= csum(b) for 0 <= a <= b <= nf (induction on b; data sections have non-negative length)."""
    if b > a:
        lemma_csum_mono(a, b - 1)
